/-
  C02 — Sequential calls follow the frame-ownership model exactly.

  The allocation status of every frame is a function of the lower metadata alone
  (`Mem.allocated`, `Mem.whole`); the upper level only decides where to call the lower
  allocator. Proved here, for every geometry (HUGE_ORDER 6..15, TREE_HUGE = 2^k), frame count
  and memory satisfying the lower invariant:

  * `lower_put_refines` — `Lower::put` succeeds **iff** the specification allows the free
    (`PutAllowed`: all frames allocated; for huge orders every covered huge frame whole), then
    frees exactly those frames, splitting a whole huge frame on a partial free (`PutPost`);
    otherwise it returns `Memory` and leaves the *entire* memory unchanged;
  * `lower_getAt_refines` — the targeted allocation succeeds **iff** the block is entirely
    free (`GetAllowed`), allocates exactly it (`GetPost`), otherwise changes nothing;
  * `lower_get_refines` — the search allocates an entirely free aligned block of the tree or
    changes nothing (see also C12);
  * every case preserves the invariant (`PutPost.inv`, `GetPost.inv`) and never panics.

  and for the public calls, in every state satisfying the upper invariant `UpperInv0` (which
  construction establishes and every call preserves — `history_keeps_invariant`):

  * `put_refines` — `LLFree::put` succeeds **iff** the specification allows the free, frees
    exactly the block (split of a whole huge frame on a partial free), a refused free changes
    nothing at all;
  * `get_refines` — `LLFree::get` (every path: own reservation with synchronisation,
    `search_and_reserve` / `search_best`, `reserve_or_steal`, `steal_global`, stealing and
    demoting other slots' reservations) returns only blocks that were entirely free, exactly the
    target if given, allocates exactly them; every failure is `Memory` with the allocation state
    unchanged; no path panics;
  * `drain_keeps_allocation`, `change_keeps_allocation`.

  `new_then_history`: construction with free-all / allocate-all (every frame count, arbitrary
  buffer contents — C06) establishes the invariant, so the theorems cover every call of every
  history of a freshly constructed allocator. For `Init::Recover` / `Init::None` the invariant of
  the handed-over state is an assumption (C05 / C07). `CfgOk` is what a
  configuration has to satisfy: class ids < 8, ordered policy (all policies of the repository),
  tree size below 2^19 frames (the counter width of a local reservation) — `CfgOk.of_checks`.

  * `single_row_updates_match_source` — the mask and the update closure of `Bitfield::toggle`
    (orders 0..2) and the mask test of `Bitfield::is_zero` are re-derived from the Rust source on
    every run (`tools/rs2lean.py`, `Gen/Toggle.lean`) and proved equal to the model's.
-/
import LLFreeV.Proofs.EndToEnd
import LLFreeV.Proofs.CfgOk
import LLFreeV.Proofs.ConcUpperThreads
import LLFreeV.Proofs.GenToggle
import LLFreeV.Proofs.ConcChange
namespace LLFree.C02
open LLFree

theorem lower_put_refines (c : Cfg) (ok : GeomOk16 c.geom) (m : Mem) (inv : LowerInv c m) (retries frame order : Nat)
    (hb : BlockOk c frame order) :
    (PutAllowed c m frame order →
      ∃ m', runSolo (Lower.put c.geom retries frame order) m = (m', .ok (.ok ())) ∧ PutPost c m m' frame order) ∧
    (¬ PutAllowed c m frame order → runSolo (Lower.put c.geom retries frame order) m = (m, .ok (.error .memory))) :=
  LLFree.lower_put_refines ok m inv retries frame order hb

theorem lower_getAt_refines (c : Cfg) (ok : GeomOk16 c.geom) (m : Mem) (inv : LowerInv c m) (frame order : Nat)
    (hb : BlockOk c frame order) :
    (GetAllowed c m frame order →
      ∃ m', runSolo (Lower.getAt c.geom frame order) m = (m', .ok (.ok ())) ∧ GetPost c m m' frame order) ∧
    (¬ GetAllowed c m frame order → runSolo (Lower.getAt c.geom frame order) m = (m, .ok (.error .memory))) :=
  LLFree.lower_getAt_refines ok m inv frame order hb

theorem lower_get_refines (c : Cfg) (ok : GeomOk16 c.geom) (m : Mem) (inv : LowerInv c m) (start order : Nat)
    (hto : order ≤ c.geom.treeOrder) (ht : start * 64 / c.geom.treeFrames < c.ntrees) :
    ∃ m' r, runSolo (Lower.get c.geom start order none) m = (m', .ok r) ∧
      GetRes c m (start * 64 / c.geom.treeFrames) order m' r :=
  LLFree.lower_get_refines ok m inv start order hto ht

/-- a successful free makes exactly the block's frames free and nothing else changes -/
theorem put_frees_exactly (c : Cfg) (m m' : Mem) (frame order : Nat) (post : PutPost c m m' frame order) (f : Nat) :
    m'.allocated c.geom f = (m.allocated c.geom f && !inBlock frame order f) := post.alloc f

/-- a successful allocation makes exactly the block's frames allocated and nothing else changes -/
theorem get_allocates_exactly (c : Cfg) (m m' : Mem) (frame order : Nat) (post : GetPost c m m' frame order) (f : Nat) :
    m'.allocated c.geom f = (m.allocated c.geom f || inBlock frame order f) := post.alloc f

/-- Non-vacuity: in the all-free 1-tree allocator of the default geometry (rows zero, counters
    512) the block (0, order 3) may be allocated and may not be freed. -/
example : let c : Cfg := ⟨⟨9, 4⟩, 2048, [(0, 1)], 0, fun _ _ _ => .invalid⟩
    let m : Mem := ⟨Array.replicate 32 0#64, Array.replicate 4 512, #[], #[]⟩
    (∀ i, i < 8 → m.allocated c.geom (0 + i) = false) ∧ m.allocated c.geom 0 = false := by
  decide


/-! ### The public calls (upper level), every reachable state

  `UpperInv0 c H m`: the upper invariant between calls (`H` = trees with frames hidden by
  `Offline`). It holds after construction (`C06.trees_new_establishes`) and is preserved by every
  call (`history_keeps_invariant`), so the per-call theorems apply to every sequential history. -/

/-- **`LLFree::put`**: with valid arguments the free succeeds **iff** the ownership
    specification allows it; it then frees exactly the frames of the block (splitting a whole
    huge frame on a partial free), nothing else changes in the allocation state, and the
    invariant is re-established; a refused free leaves the *entire* memory unchanged. -/
theorem put_refines (c : Cfg) (ok : CfgOk c) (H : Nat → Nat) (m : Mem) (inv : UpperInv0 c H m) (frame : Nat) (r : Request)
    (hcls : r.cls < 8) (hloc : r.locOk c) (hv : C08.ArgsValid c frame r) :
    (PutAllowed c m frame r.order →
      Runs m (put c frame r) (fun res m' => res = .ok () ∧ UpperInv0 c H m' ∧
        ∃ m1, PutPost c m m1 frame r.order ∧ SameAlloc m1 m')) ∧
    (¬ PutAllowed c m frame r.order → Runs m (put c frame r) (fun res m' => res = .error .memory ∧ m = m')) :=
  upper_put_spec ok inv frame r hcls hloc hv

/-- **`LLFree::get`** (with or without target, every order, slot or no slot): never panics; a
    success returns an aligned block that was entirely free (exactly the target if one was
    given) and exactly its frames become allocated; a failure is `Memory` and leaves the
    allocation status of every frame unchanged; the invariant is re-established. -/
theorem get_refines (c : Cfg) (ok : CfgOk c) (H : Nat → Nat) (m : Mem) (inv : UpperInv0 c H m) (frame : Option Nat) (r : Request)
    (hcls : r.cls < 8) (hloc : r.locOk c) (hv : C08.ArgsValid c (frame.getD 0) r) :
    Runs m (get c frame r) (fun res m' => UpperInv0 c H m' ∧ GetOutcome c m r.order frame res m') :=
  upper_get_spec ok inv frame r hcls hloc hv

/-- drains and tree changes do not change the allocation status of any frame -/
theorem drain_keeps_allocation (c : Cfg) (ok : CfgOk c) (H : Nat → Nat) (m : Mem) (inv : UpperInv0 c H m) :
    Runs m (drain c) (fun _ m' => UpperInv0 c H m' ∧ SameAlloc m m') :=
  (drain_spec ok inv).mono (fun _ _ h => ⟨h.1, h.2.1⟩)

theorem change_keeps_allocation (c : Cfg) (ok : CfgOk c) (H : Nat → Nat) (m : Mem) (inv : UpperInv0 c H m)
    (mid mcls : Option Nat) (mfree : Nat) (ccls : Option Nat) (op : Option Tree.Op) (hccls : ∀ k, ccls = some k → k < 8) :
    Runs m (changeTree c mid mcls mfree ccls op) (fun _ m' => SameAlloc m m' ∧ ∃ H', UpperInv0 c H' m') :=
  (changeTree_spec ok inv mid mcls mfree ccls op hccls).mono (fun _ _ h => by
    obtain ⟨_, H', i, post, _⟩ := h
    exact ⟨post.same, H', post.inv⟩)

/-- **Every sequential history** of valid-parameter calls from a constructed allocator runs
    without panic and ends in a state satisfying the invariant (so the theorems above apply to
    every call of every history). -/
theorem history_keeps_invariant (c : Cfg) (ok : CfgOk c) (calls : List Call) (hvalid : ∀ x ∈ calls, x.valid c)
    (H : Nat → Nat) (m : Mem) (inv : UpperInv0 c H m) :
    Runs m (runCalls c calls) (fun _ m' => ∃ H', UpperInv0 c H' m') := calls_safe ok calls hvalid H m inv

/-- **After any concurrent history**: `n` threads run arbitrary public calls (get, put of held
    blocks at their order, drain) under any schedule; once they have all returned, every
    sequential history of valid calls from there runs without panic and keeps the invariant —
    the sequential ownership theorems above apply to every call of the continuation. -/
theorem conc_then_history_keeps_invariant (c : Cfg) (ok : CfgOk c) (H : Nat → Nat) (m : Mem) (inv : UpperInv0 c H m)
    (n : Nat) (cmds : Nat → List UCmd) (hvalidU : ∀ k, ∀ x ∈ cmds k, x.valid c) (sched : List Nat) (hsched : ∀ k ∈ sched, k < n)
    (hdone : ∀ k, k < n → ∃ held, ((concRun sched (m, fun k => Th.at (runU c (cmds k) ⟨[], []⟩))).2 k).step
      (concRun sched (m, fun k => Th.at (runU c (cmds k) ⟨[], []⟩))).1 = .done held)
    (calls : List Call) (hvalid : ∀ x ∈ calls, x.valid c) :
    Runs (concRun sched (m, fun k => Th.at (runU c (cmds k) ⟨[], []⟩))).1 (runCalls c calls)
      (fun _ m' => ∃ H', UpperInv0 c H' m') :=
  calls_safe ok calls hvalid H _ (upper_conc_quiescent ok H m inv n cmds hvalidU sched hsched hdone)

/-- Non-vacuity of `CfgOk`: the default geometry with two classes (2 slots each) and the
    `simple` policy. -/
example : CfgOk ⟨⟨9, 4⟩, 8192, [(0, 2), (1, 2)], 1, simplePolicy 2048⟩ :=
  CfgOk.of_checks _ ⟨⟨by decide, ⟨2, rfl⟩⟩, by decide⟩ (by decide) (by decide) (by decide)
    ⟨_, fun f => by
      show ∃ q, (if f ≥ 2048 / 2 then Policy.match 1 else if f ≥ 2048 / 64 then Policy.match 255 else Policy.match 0) = Policy.match q
      split
      · exact ⟨_, rfl⟩
      · split <;> exact ⟨_, rfl⟩, rfl⟩
    (by decide)


/-- **From `LLFree::new` on**: free-all or allocate-all construction (from arbitrary buffer
    contents, any frame count) followed by any sequential history of valid-parameter calls
    never panics and every intermediate state satisfies the invariant under which `put_refines`
    and `get_refines` hold. -/
theorem new_then_history (c : Cfg) (ok : CfgOk c) (init : Init) (hinit : init = .freeAll ∨ init = .allocAll)
    (calls : List Call) (hvalid : ∀ x ∈ calls, x.valid c) (m : Mem) (hs : ShapeOk c m) (habs : ∀ s, SlotAbsent m s) :
    Runs m (do initProg c init; runCalls c calls) (fun _ m' => ∃ H', UpperInv0 c H' m') :=
  LLFree.new_then_history ok init hinit calls hvalid m hs habs

/-- **The single-row bit updates of the model are those of the current source**: the mask and the
    update closure of `Bitfield::toggle` for orders 0..2 (the step that claims or releases the bits
    of a block inside one row — in particular for a targeted allocation) and the mask test of
    `Bitfield::is_zero` are regenerated from `core/src/bitfield.rs` on every run (`Gen/Toggle.lean`)
    and equal the model's: a block is claimed only if *all* its bits are free, released only if all
    are set. -/
theorem single_row_updates_match_source (bits sh : Nat) (hb : bits ≤ 64) (hs : sh < 64) (e mask : BitVec 64) (expected : Bool) :
    Gen.B.toggleMask (BitVec.ofNat 64 bits) (BitVec.ofNat 64 sh) = bitMask bits sh ∧
    Gen.B.toggleSmall e mask expected =
      (if expected then (if e &&& mask = mask then some (e &&& ~~~mask) else none)
       else (if e &&& mask = 0 then some (e ||| mask) else none)) ∧
    Gen.B.isZeroMask (BitVec.ofNat 64 bits) (BitVec.ofNat 64 sh) = bitMask bits sh ∧
    Gen.B.isZeroRow e mask = decide ((e &&& mask) = 0) :=
  ⟨GenTree.toggleMask_eq bits sh hb hs, GenTree.toggleSmall_eq e mask expected, GenTree.isZeroMask_eq bits sh hb hs,
    GenTree.isZeroRow_eq e mask⟩

/-- … and the same when the concurrent phase also changed trees (class changes, `Offline`): any
    sequential history after a quiescent end keeps the invariant (so the ownership refinement of every
    later call applies). -/
theorem conc_with_tree_changes_then_history_keeps_invariant (c : Cfg) (ok : CfgOk c) (H : Nat → Nat) (m : Mem) (inv : UpperInv0 c H m)
    (n : Nat) (cmds : Nat → List CCmd) (hvalidU : ∀ k, ∀ x ∈ cmds k, x.valid c) (sched : List Nat) (hsched : ∀ k ∈ sched, k < n)
    (hdone : ∀ k, k < n → ∃ held, ((concRun sched (m, fun k => Th.at (runUC c (cmds k) ⟨[], []⟩))).2 k).step
      (concRun sched (m, fun k => Th.at (runUC c (cmds k) ⟨[], []⟩))).1 = .done held)
    (calls : List Call) (hvalid : ∀ x ∈ calls, x.valid c) :
    Runs (concRun sched (m, fun k => Th.at (runUC c (cmds k) ⟨[], []⟩))).1 (runCalls c calls)
      (fun _ m' => ∃ H', UpperInv0 c H' m') := by
  obtain ⟨H', _, hinv⟩ := upper_conc_quiescent_change ok H m inv n cmds hvalidU sched hsched hdone
  exact calls_safe ok calls hvalid H' _ hinv

end LLFree.C02
