/-
  C05 — Crash at any point: recovery keeps completed allocations and frees free frames.

  Proved here (the decision logic of `Lower::recover`, which is what recovery rebuilds the
  counters with; `recoverAct` is the pure decision used by the model of `recover`):
  * `recover_marker` — an entry marked "allocated as one huge frame" stays marked; its bitfield
    is cleared iff it is not already empty. So a crash between filling the bitfield and clearing
    the marker of a split (`partial_put_huge`) recovers to the whole huge allocation, and a
    completed huge allocation stays allocated and can be freed at its original order;
  * `recover_counter` — any other entry ends up holding exactly the number of zero bits of its
    bitfield (the bitfield is the truth): a crash between the counter update and the bit update
    of an allocation or free cannot leave a counter that disagrees with the bits, so fast and
    exact counts agree after recovery;
  * `recover_fixpoint_act` — on an entry that satisfies the invariant nothing is written
    (recovering a quiescent allocator changes nothing, cf. C17 "recovers with the same state").

  PARTIAL: lifting these per-entry facts to the whole loop of `recover` and to every crash point
  of every interleaving needs (a) the loop specification of `recover` (`count_zeros`/`fill` over
  all entries) and (b) the concurrent invariant that characterises the states a crash can leave;
  not yet theorems. Explored by the crash oracle of the trace co-simulation: before every atomic
  write to the persistent buffer, of every explored schedule, the buffer is copied and recovered
  with the real code (held blocks allocated and freeable at their order, counts agree, at most
  the in-flight calls' frames missing), and by recover-at-quiescent-points in the sequential
  histories and the NVM wrapper runs.
-/
import LLFreeV.Model.Lower
namespace LLFree.C05
open LLFree

/-- the entry after applying the action -/
def entryAfter (entry : Nat) : RecoverAct → Nat
  | .nothing => entry
  | .clearBitfield => entry
  | .setCounter v => v

/-- the number of zero bits of the bitfield after applying the action -/
def zerosAfter (hf zeros : Nat) : RecoverAct → Nat
  | .nothing => zeros
  | .clearBitfield => hf
  | .setCounter _ => zeros

theorem recover_marker (hf entry zeros : Nat) (hm : Huge.isHuge entry = true) :
    Huge.isHuge (entryAfter entry (recoverAct hf entry zeros)) = true ∧
    zerosAfter hf zeros (recoverAct hf entry zeros) = hf := by
  unfold recoverAct
  simp only [hm, if_true]
  by_cases h : zeros = hf
  · simp [h, entryAfter, zerosAfter, hm]
  · simp [h, entryAfter, zerosAfter, hm]

theorem recover_counter (hf entry zeros : Nat) (hm : Huge.isHuge entry = false) (hz : zeros < 65535) :
    let act := recoverAct hf entry zeros
    Huge.isHuge (entryAfter entry act) = false ∧ Huge.free (entryAfter entry act) = zerosAfter hf zeros act ∧
    zerosAfter hf zeros act = zeros := by
  have hnw : Huge.newWith zeros = zeros := Nat.mod_eq_of_lt (by omega)
  have hnm : Huge.isHuge zeros = false := by simp [Huge.isHuge, HugeMarker]; omega
  by_cases h : Huge.free entry = zeros
  · have e : recoverAct hf entry zeros = .nothing := by simp [recoverAct, hm, h]
    simp only [e, entryAfter, zerosAfter, hm, h, and_self]
  · have e : recoverAct hf entry zeros = .setCounter zeros := by simp [recoverAct, hm, h, hnw]
    simp only [e, entryAfter, zerosAfter, hnm, Huge.free, Bool.false_eq_true, if_false, and_self]

/-- nothing is written when the entry already agrees with its bitfield -/
theorem recover_fixpoint_act (hf entry zeros : Nat)
    (hinv : (Huge.isHuge entry = true → zeros = hf) ∧ (Huge.isHuge entry = false → Huge.free entry = zeros)) :
    recoverAct hf entry zeros = .nothing := by
  unfold recoverAct
  by_cases hm : Huge.isHuge entry = true
  · simp [hm, hinv.1 hm]
  · have hm' : Huge.isHuge entry = false := by simpa using hm
    simp [hm', hinv.2 hm']

/-- Non-vacuity: counter 5 over a bitfield with 7 zero bits is corrected to 7; a marker over a
    partly filled bitfield (crash inside a split) clears the bitfield. -/
example : recoverAct 512 5 7 = .setCounter 7 ∧ recoverAct 512 HugeMarker 300 = .clearBitfield := by decide

end LLFree.C05
