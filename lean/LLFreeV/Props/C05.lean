/-
  C05 — Crash at any point: recovery keeps completed allocations and frees free frames.

  Proved here (the decision logic of `Lower::recover`, which is what recovery rebuilds the
  counters with; `recoverAct` is the pure decision used by the model of `recover`):
  * `recover_marker` — an entry marked "allocated as one huge frame" stays marked; its bitfield
    is cleared iff it is not already empty. So a crash between filling the bitfield and clearing
    the marker of a split (`partial_put_huge`) recovers to the whole huge allocation, and a
    completed huge allocation stays allocated and can be freed at its original order;
  * `recover_counter` — any other entry ends up holding exactly the number of zero bits of its
    bitfield (the bitfield is the truth): a crash between the counter update and the bit update
    of an allocation or free cannot leave a counter that disagrees with the bits, so fast and
    exact counts agree after recovery;
  * `recover_fixpoint_act` — on an entry that satisfies the invariant nothing is written
    (recovering a quiescent allocator changes nothing, cf. C17 "recovers with the same state").

  * `recover_reestablishes` / `lower_recover_spec` — the whole program (`count_zeros`, `fill`,
    both loops, then `Trees::new`): from **any** persistent state satisfying the weak invariant
    `CrashInv` (sizes, no free frame outside the range, markers only inside it — counters
    arbitrary, splits half done) recovery never panics, re-establishes the lower and upper
    invariants with nothing hidden (fast = exact), and keeps the allocation status of every
    frame as recorded by markers and bits; `recover_then_history`.

  * `conc_crash_anywhere_recovers` — **crash at any instant of any interleaving of any number
    of threads** using the lower allocator (`Lower::get`/`get_at`/`put` at allocation order):
    the state at that instant satisfies `CrashInv` (`LInv.crashInv`: the counters never
    over-report, `conc_counters_never_over_report`), recovery from it re-establishes the full
    lower invariant, and everything any thread held at the crash — completed allocations and
    the holdings of calls in flight — is still allocated afterwards (bits set / marker kept), so
    it can be freed at its order; every other frame is free exactly if its bit says so.

  * `conc_crash_anywhere_public_api` — the same for threads at the public interface
    (`LLFree::get` on every path, `LLFree::put` of held blocks at allocation order), from any
    contents of the volatile arrays: every reachable state recovers to the full lower invariant
    with all holdings kept.

  PARTIAL: call sequences that free a *part* of a huge allocation (`partial_put_huge`, K1) are
  not covered by the all-interleavings theorems. Explored by the crash oracle of the trace co-simulation: before every atomic
  write to the persistent buffer, of every explored schedule, the buffer is copied and recovered
  with the real code (held blocks allocated and freeable at their order, counts agree, at most
  the in-flight calls' frames missing), and by recover-at-quiescent-points in the sequential
  histories and the NVM wrapper runs.

  * `conc_crash_anywhere_with_tree_changes` — the same for threads that also call `change_tree`
    (class changes, `Offline`): tree changes touch only volatile state.
-/
import LLFreeV.Proofs.EndToEnd
import LLFreeV.Proofs.OwnLowerThreads
import LLFreeV.Proofs.OwnUpperThreads
import LLFreeV.Proofs.ConcChange
namespace LLFree.C05
open LLFree

/-- the entry after applying the action -/
def entryAfter (entry : Nat) : RecoverAct → Nat
  | .nothing => entry
  | .clearBitfield => entry
  | .setCounter v => v

/-- the number of zero bits of the bitfield after applying the action -/
def zerosAfter (hf zeros : Nat) : RecoverAct → Nat
  | .nothing => zeros
  | .clearBitfield => hf
  | .setCounter _ => zeros

theorem recover_marker (hf entry zeros : Nat) (hm : Huge.isHuge entry = true) :
    Huge.isHuge (entryAfter entry (recoverAct hf entry zeros)) = true ∧
    zerosAfter hf zeros (recoverAct hf entry zeros) = hf := by
  unfold recoverAct
  simp only [hm, if_true]
  by_cases h : zeros = hf
  · simp [h, entryAfter, zerosAfter, hm]
  · simp [h, entryAfter, zerosAfter, hm]

theorem recover_counter (hf entry zeros : Nat) (hm : Huge.isHuge entry = false) (hz : zeros < 65535) :
    let act := recoverAct hf entry zeros
    Huge.isHuge (entryAfter entry act) = false ∧ Huge.free (entryAfter entry act) = zerosAfter hf zeros act ∧
    zerosAfter hf zeros act = zeros := by
  have hnw : Huge.newWith zeros = zeros := Nat.mod_eq_of_lt (by omega)
  have hnm : Huge.isHuge zeros = false := by simp [Huge.isHuge, HugeMarker]; omega
  by_cases h : Huge.free entry = zeros
  · have e : recoverAct hf entry zeros = .nothing := by simp [recoverAct, hm, h]
    simp only [e, entryAfter, zerosAfter, hm, h, and_self]
  · have e : recoverAct hf entry zeros = .setCounter zeros := by simp [recoverAct, hm, h, hnw]
    simp only [e, entryAfter, zerosAfter, hnm, Huge.free, Bool.false_eq_true, if_false, and_self]

/-- nothing is written when the entry already agrees with its bitfield -/
theorem recover_fixpoint_act (hf entry zeros : Nat)
    (hinv : (Huge.isHuge entry = true → zeros = hf) ∧ (Huge.isHuge entry = false → Huge.free entry = zeros)) :
    recoverAct hf entry zeros = .nothing := by
  unfold recoverAct
  by_cases hm : Huge.isHuge entry = true
  · simp [hm, hinv.1 hm]
  · have hm' : Huge.isHuge entry = false := by simpa using hm
    simp [hm', hinv.2 hm']

/-- Non-vacuity: counter 5 over a bitfield with 7 zero bits is corrected to 7; a marker over a
    partly filled bitfield (crash inside a split) clears the bitfield. -/
example : recoverAct 512 5 7 = .setCounter 7 ∧ recoverAct 512 HugeMarker 300 = .clearBitfield := by decide


/-- what holds of the persistent metadata at every instant of every execution (sizes, no free
    frame outside the managed range, whole-huge markers only inside it): the states a crash can
    leave. Every state satisfying the lower invariant satisfies it (`LowerInv.crashInv`). -/
abbrev CrashState := @CrashInv

/-- **Recovery re-establishes the invariants and keeps the allocation state of every frame**:
    from *any* persistent state satisfying the weak invariant (counters may be arbitrary, a split
    may be half done, bitfields of whole huge frames may be partly filled) and zeroed volatile
    buffers, `new(Init::Recover)` never panics, yields a state satisfying the lower and upper
    invariants with nothing hidden — so fast and exact counts agree (C04.fast_counters_exact)
    — and every frame is allocated afterwards iff the persistent state recorded it as allocated
    (whole-huge marker or bit set): a block whose bits were written stays allocated and can be
    freed at its order (C02.put_refines), a frame recorded free is free. -/
theorem recover_reestablishes (c : Cfg) (ok : CfgOk c) (m : Mem) (ci : CrashInv c m) (ht : m.trees.size = c.ntrees)
    (hss : m.slots.size = c.nslots) (habs : ∀ s, SlotAbsent m s) :
    Runs m (initProg c .recover) (fun _ m' => UpperInv0 c (fun _ => 0) m' ∧
      (∀ f, m'.allocated c.geom f = m.allocated c.geom f) ∧ (∀ h, m'.whole h = m.whole h)) :=
  init_recover_spec ok m ci ht hss habs

/-- the lower half: counters are rebuilt from the bitfields, markers win over their bitfield -/
theorem lower_recover_spec (c : Cfg) (ok : GeomOk16 c.geom) (m : Mem) (ci : CrashInv c m) (ht : m.trees.size = c.ntrees) :
    Runs m (Lower.recover c.geom c.ntrees c.nhuge) (fun _ m' => LowerInv c m' ∧
      (∀ h, Huge.isHuge (m'.hugeE h) = Huge.isHuge (m.hugeE h)) ∧
      (∀ f, Huge.isHuge (m.hugeE (f / c.geom.hugeFrames)) = false → m'.bit f = m.bit f) ∧
      m'.trees = m.trees ∧ m'.slots = m.slots) := recover_spec ok m ci ht

/-- recovery followed by any sequential history never panics and keeps the invariant -/
theorem recover_then_history (c : Cfg) (ok : CfgOk c) (calls : List Call) (hvalid : ∀ x ∈ calls, x.valid c) (m : Mem)
    (ci : CrashInv c m) (ht : m.trees.size = c.ntrees) (hss : m.slots.size = c.nslots) (habs : ∀ s, SlotAbsent m s) :
    Runs m (do initProg c .recover; runCalls c calls) (fun _ m' => ∃ H', UpperInv0 c H' m') :=
  LLFree.recover_then_history ok calls hvalid m ci ht hss habs

/-- a quiescent state is a crash state: recovering it changes no allocation status -/
theorem quiescent_is_crash_state (c : Cfg) (m : Mem) (inv : LowerInv c m) : CrashInv c m := inv.crashInv

/-- **Crash at any instant of any interleaving, then recovery.** -/
theorem conc_crash_anywhere_recovers (c : Cfg) (ok : GeomOk16 c.geom) (m : Mem) (inv : LowerInv c m) (ht : m.trees.size = c.ntrees)
    (n retries : Nat) (cmds : Nat → List LCmd) (sched : List Nat) (hsched : ∀ k ∈ sched, k < n) :
    ∃ ghs, LowerConcOk c.geom n
        (concRun sched (m, fun k => Th.at (runL c.geom retries (cmds k) ⟨[], []⟩))).1
        (concRun sched (m, fun k => Th.at (runL c.geom retries (cmds k) ⟨[], []⟩))).2 ghs ∧
      Runs (concRun sched (m, fun k => Th.at (runL c.geom retries (cmds k) ⟨[], []⟩))).1
        (Lower.recover c.geom c.ntrees c.nhuge) (fun _ m'' => LowerInv c m'' ∧
          (∀ k f, (ghs k).ownS f = true → m''.bit f = true) ∧
          (∀ k h, (ghs k).ownH h = true → Huge.isHuge (m''.hugeE h) = true)) :=
  lower_crash_anywhere_recovers ok m inv ht n retries cmds sched hsched

/-- **Crash at any instant of any interleaving of public-interface calls, then recovery.** -/
theorem conc_crash_anywhere_public_api (c : Cfg) (ok : GeomOk16 c.geom) (m : Mem) (inv : LowerInv c m) (ht : m.trees.size = c.ntrees)
    (n : Nat) (cmds : Nat → List UCmd) (sched : List Nat) (hsched : ∀ k ∈ sched, k < n) :
    ∃ ghs, ConcFacts c.geom c.frames (concRun sched (m, fun k => Th.at (runU c (cmds k) ⟨[], []⟩))).1 ghs ∧
      Runs (concRun sched (m, fun k => Th.at (runU c (cmds k) ⟨[], []⟩))).1
        (Lower.recover c.geom c.ntrees c.nhuge) (fun _ m'' => LowerInv c m'' ∧
          (∀ k f, (ghs k).ownS f = true → m''.bit f = true) ∧
          (∀ k h, (ghs k).ownH h = true → Huge.isHuge (m''.hugeE h) = true)) := by
  obtain ⟨ghs, h1, _, h3⟩ := upper_threads_safe ok m inv ht n cmds sched hsched
  exact ⟨ghs, h1, h3⟩

/-- in every state of every interleaving a counter is at most the number of zero bits of its
    bitfield, and a whole-huge marker sits on an empty bitfield: recovery only ever has to
    *raise* counters, it never finds an allocation the persistent state does not record -/
theorem conc_counters_never_over_report (c : Cfg) (ok : GeomOk16 c.geom) (m : Mem) (inv : LowerInv c m)
    (n retries : Nat) (cmds : Nat → List LCmd) (sched : List Nat) (hsched : ∀ k ∈ sched, k < n) (h : Nat) :
    let m' := (concRun sched (m, fun k => Th.at (runL c.geom retries (cmds k) ⟨[], []⟩))).1
    (Huge.isHuge (m'.hugeE h) = false → m'.hugeE h ≤ zerosIn c.geom m' h) ∧
    (Huge.isHuge (m'.hugeE h) = true → zerosIn c.geom m' h = c.geom.hugeFrames) := by
  obtain ⟨_, hok⟩ := lower_threads_safe ok m inv n retries cmds sched hsched
  exact ⟨hok.counter_le h, hok.marker h⟩

/-- **Crash at any instant of any interleaving that also changes trees, then recovery**: threads run
    public calls and `change_tree` calls (class changes, `Offline`; these touch only the volatile tree
    array) from any contents of the volatile arrays; every reachable state is a legal crash image and
    recovery keeps every holding allocated. -/
theorem conc_crash_anywhere_with_tree_changes (c : Cfg) (ok : GeomOk16 c.geom) (m : Mem) (inv : LowerInv c m) (ht : m.trees.size = c.ntrees)
    (n : Nat) (cmds : Nat → List CCmd) (sched : List Nat) (hsched : ∀ k ∈ sched, k < n) :
    ∃ ghs, ConcFacts c.geom c.frames (concRun sched (m, fun k => Th.at (runUC c (cmds k) ⟨[], []⟩))).1 ghs ∧
      Runs (concRun sched (m, fun k => Th.at (runUC c (cmds k) ⟨[], []⟩))).1
        (Lower.recover c.geom c.ntrees c.nhuge) (fun _ m'' => LowerInv c m'' ∧
          (∀ k f, (ghs k).ownS f = true → m''.bit f = true) ∧
          (∀ k h, (ghs k).ownH h = true → Huge.isHuge (m''.hugeE h) = true)) := by
  have okg := ok.toGeomOk
  have hhf : Huge.isHuge c.geom.hugeFrames = false := isHuge_of_le ok _ (Nat.le_refl _)
  have I0 := LInv.init_gen ok m inv n false (PostLU c) (fun k => runUC c (cmds k) ⟨[], []⟩)
    (fun k => runUC_safe ok (cmds k) ⟨[], []⟩ ⟨trivial, (fun b hb => by cases hb), trivial⟩)
  obtain ⟨ghs, I⟩ := LInv.run okg hhf sched hsched m _ _ I0
  have hsz := concRun_sizes sched m (fun k => Th.at (runUC c (cmds k) ⟨[], []⟩))
  exact ⟨ghs, I.facts okg, LInv.recovers ok (Or.inr I) (by rw [hsz.1]; exact inv.rowsSize) (by rw [hsz.2.1]; exact inv.hugeSize)
    (by rw [hsz.2.2.1]; exact ht)⟩

end LLFree.C05
