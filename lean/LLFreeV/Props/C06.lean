/-
  C06 — Free-all and allocate-all initialization are correct for every frame count.

  Proved here (for every frame count `n ≥ 0` and every huge-frame size `hf > 0`):
  * `free_all_entry_le` / `free_all_sum` — the counters `free_all` writes
    (`min(n − h·hf, hf)` for huge frame `h`) never exceed the huge-frame size and add up to
    exactly `n` over the `⌈n/hf⌉` huge frames: a fresh free-all allocator reports exactly the
    managed frames free, none beyond;
  * `free_all_full_iff` — an entry holds the full counter iff its huge frame lies entirely inside
    the managed range (what `free_huge` counts; partial last huge frames are never "entirely free");
  * `reserve_all_split` — allocate-all marks exactly the `⌊n/hf⌋` huge frames that lie entirely
    inside the range as whole allocations and gives the (at most one) partial one counter 0;
  * the table has an entry for every huge frame (`GeomOk.ceil_hf_le`), for every geometry.

  * `free_all_establishes` / `alloc_all_establishes` — the *programs* (`Lower::free_all`,
    `Lower::reserve_all` with their store loops, `Bitfield::fill`, `Bitfield::set` on the partial
    bitfield, then `Trees::new`) establish, for **every frame count** (including 0) and geometry,
    from arbitrary buffer contents: the lower and upper invariants, nothing hidden, and the
    allocation state "allocated iff at or beyond the managed count" resp. "everything allocated,
    huge frames inside the range as whole huge frames". With C02 (`get` returns only free frames,
    `put` succeeds iff allowed) this is the statement of the property; the accounting clauses are
    C04 (`stats_exact`, `fast_counters_exact`).

  Carried by the correspondence only: that the model transliterates the source (byte-level
  digest after construction over boundary-dense frame counts in 5 geometries).
-/
import LLFreeV.Proofs.EndToEnd
import LLFreeV.Proofs.CfgOk
import LLFreeV.Model.Policies
namespace LLFree.C06
open LLFree

/-- the counter `free_all` stores for huge frame `h` -/
def freeAllEntry (n hf h : Nat) : Nat := min (n - h * hf) hf

theorem free_all_entry_le (n hf h : Nat) : freeAllEntry n hf h ≤ hf := Nat.min_le_right _ _

theorem free_all_full_iff (n hf h : Nat) (hpos : 0 < hf) : freeAllEntry n hf h = hf ↔ (h + 1) * hf ≤ n := by
  unfold freeAllEntry
  rw [Nat.add_mul, Nat.one_mul]
  constructor
  · intro h1
    have : hf ≤ n - h * hf := by
      rcases Nat.le_total (n - h * hf) hf with h2 | h2
      · rw [Nat.min_eq_left h2] at h1; omega
      · exact h2
    omega
  · intro h1
    exact Nat.min_eq_right (by omega)

/-- sum of the counters over the first `k` huge frames -/
def freeAllSum (n hf : Nat) : Nat → Nat
  | 0 => 0
  | k+1 => freeAllSum n hf k + freeAllEntry n hf k

theorem free_all_prefix (n hf : Nat) (k : Nat) : freeAllSum n hf k = min n (k * hf) := by
  induction k with
  | zero => simp [freeAllSum]
  | succ k ih =>
    rw [freeAllSum, ih]
    unfold freeAllEntry
    rw [Nat.add_mul, Nat.one_mul]
    rcases Nat.le_total n (k * hf) with h | h
    · have e : n - k * hf = 0 := by omega
      rw [Nat.min_eq_left h, Nat.min_eq_left (show n ≤ k * hf + hf by omega), e, Nat.zero_min, Nat.add_zero]
    · rw [Nat.min_eq_right h]
      rcases Nat.le_total (n - k * hf) hf with h2 | h2
      · rw [Nat.min_eq_left h2, Nat.min_eq_left (by omega)]; omega
      · rw [Nat.min_eq_right h2, Nat.min_eq_right (by omega)]

/-- **A fresh free-all allocator reports exactly the managed frames free.** -/
theorem free_all_sum (n hf : Nat) (hpos : 0 < hf) : freeAllSum n hf ((n + hf - 1) / hf) = n := by
  rw [free_all_prefix]
  apply Nat.min_eq_left
  have := Nat.lt_mul_div_succ (n + hf - 1) hpos
  rw [Nat.mul_comm, Nat.add_mul, Nat.one_mul] at this
  omega

/-- allocate-all: the huge frames entirely inside the range are exactly `h < n / hf` -/
theorem reserve_all_split (n hf h : Nat) (hpos : 0 < hf) : h < n / hf ↔ (h + 1) * hf ≤ n := by
  rw [Nat.lt_iff_add_one_le, Nat.le_div_iff_mul_le hpos]

/-- Non-vacuity: 1000 frames with 512-frame huge frames: counters 512 and 488. -/
example : freeAllEntry 1000 512 0 = 512 ∧ freeAllEntry 1000 512 1 = 488 ∧ freeAllSum 1000 512 2 = 1000 := by decide


/-- **`Trees::new`** (run by every initialisation mode after the lower allocator is set up):
    from a lower allocator satisfying its invariant and empty slots it establishes the upper
    invariant with nothing hidden — every tree counter is exactly the number of free frames of
    its tree, so a fresh free-all allocator reports every managed frame free (with
    `free_all_sum`) and, by C02, lets exactly free frames be allocated; no frame at or beyond the
    managed count is free (`LowerInv.outside`, C01.fresh_in_range). -/
theorem trees_new_establishes (c : Cfg) (ok : CfgOk c) (m : Mem) (inv : LowerInv c m) (hsz : m.trees.size = c.ntrees)
    (hss : m.slots.size = c.nslots) (habs : ∀ s, SlotAbsent m s) :
    Runs m (Trees.init c) (fun _ m' => UpperInv0 c (fun _ => 0) m' ∧ SameAlloc m m') :=
  trees_init_spec ok m inv hsz hss habs


/-- Non-vacuity of the premises (and of the upper invariant): the all-free allocator of two
    64-frame trees (HUGE_ORDER 6, TREE_HUGE 1) satisfies the lower invariant; `Trees::new` then
    yields a state satisfying the upper invariant. -/
def cTiny : Cfg := ⟨⟨6, 1⟩, 128, [(0, 1)], 0, simplePolicy 64⟩
def mTiny : Mem := ⟨#[0#64, 0#64], #[64, 64], #[default, default], #[LTree.none]⟩

theorem tiny_lower_inv : LowerInv cTiny mTiny := by
  have hsmall : ∀ h, h < 2 → h = 0 ∨ h = 1 := by intro h hh; omega
  exact {
    rowsSize := by decide
    hugeSize := by decide
    beyond := by
      intro h hh
      have : 2 ≤ h := hh
      unfold Mem.hugeE
      have : mTiny.huge[h]? = none := by
        apply Array.getElem?_eq_none; show 2 ≤ h; omega
      rw [this]; rfl
    marker := by
      intro h hh hm
      have hh' : h < 2 := hh
      rcases hsmall h hh' with rfl | rfl <;> exact absurd hm (by decide)
    count := by
      intro h hh _
      have hh' : h < 2 := hh
      rcases hsmall h hh' with rfl | rfl <;> decide
    outside := by
      intro f hf
      have hf' : 128 ≤ f := hf
      unfold Mem.bit
      have : mTiny.rows[f / 64]? = none := by
        apply Array.getElem?_eq_none; show 2 ≤ f / 64; omega
      rw [this] }

example : CfgOk cTiny :=
  CfgOk.of_checks _ ⟨⟨by decide, ⟨0, rfl⟩⟩, by decide⟩ (by decide) (by decide) (by decide)
    ⟨_, fun f => by
      show ∃ q, (if f ≥ 64 / 2 then Policy.match 1 else if f ≥ 64 / 64 then Policy.match 255 else Policy.match 0) = Policy.match q
      split
      · exact ⟨_, rfl⟩
      · split <;> exact ⟨_, rfl⟩, rfl⟩
    (by decide)

example : ∀ s, SlotAbsent mTiny s := by
  intro s l hl
  cases s with
  | zero => simp [mTiny] at hl; rw [← hl]; rfl
  | succ s => simp [mTiny] at hl


/-- **`Init::FreeAll`, every frame count** (the whole initialisation after the metadata checks,
    from arbitrary contents of the lower and trees buffers and empty slots): afterwards the upper
    and lower invariants hold, nothing is hidden, and a frame is allocated iff it lies at or
    beyond the managed count — every managed frame is free, no other frame is. -/
theorem free_all_establishes (c : Cfg) (ok : CfgOk c) (m : Mem) (hs : ShapeOk c m) (habs : ∀ s, SlotAbsent m s) :
    Runs m (initProg c .freeAll) (fun _ m' => UpperInv0 c (fun _ => 0) m' ∧
      ∀ f, m'.allocated c.geom f = decide (c.frames ≤ f)) := init_freeAll_spec ok m hs habs

/-- **`Init::AllocAll`, every frame count**: every frame is allocated (so nothing can be
    allocated, C02), every huge frame that lies entirely inside the range is allocated as a whole
    (so it can be freed once at huge order) and every other managed frame can be freed at base
    order (`PutAllowed` of C02); afterwards the counts are those of the allocation state (C04). -/
theorem alloc_all_establishes (c : Cfg) (ok : CfgOk c) (m : Mem) (hs : ShapeOk c m) (habs : ∀ s, SlotAbsent m s) :
    Runs m (initProg c .allocAll) (fun _ m' => UpperInv0 c (fun _ => 0) m' ∧
      (∀ f, m'.allocated c.geom f = true) ∧
      (∀ j, j < c.frames / c.geom.hugeFrames → m'.whole j = true)) := init_allocAll_spec ok m hs habs

/-- the lower half alone: `free_all` / `reserve_all` establish the lower invariant from any
    buffer contents, for every frame count and geometry -/
theorem lower_free_all_inv (c : Cfg) (ok : GeomOk16 c.geom) (m : Mem) (hs : ShapeOk c m) :
    Runs m (Lower.freeAll c.geom c.frames c.ntrees c.nhuge) (fun _ m' => LowerInv c m' ∧ FreshFree c m m') :=
  freeAll_lowerInv ok m hs

theorem lower_reserve_all_inv (c : Cfg) (ok : GeomOk16 c.geom) (m : Mem) (hs : ShapeOk c m) :
    Runs m (Lower.reserveAll c.geom c.frames c.ntrees c.nhuge) (fun _ m' => LowerInv c m' ∧ FreshAlloc c m m') :=
  reserveAll_lowerInv ok m hs

end LLFree.C06
