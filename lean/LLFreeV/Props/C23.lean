/-
  C23 — Row bit search returns the lowest aligned free block and sets exactly it.

  `Gen.fza` is regenerated from `first_zeros_aligned` in core/src/bitfield.rs on every run.
  Statement at bit level, for all 2^64 rows and every order 0..6 (see `FzaSpec`):
    * result `none`  ⇔ no aligned position holds an all-zero block of 2^o bits;
    * result `some (v', off)` ⇒ `off` is the lowest aligned position with an all-zero block,
      and `v'` is `v` with exactly the bits `off .. off + 2^o` additionally set.
-/
import LLFreeV.Proofs.Fza
namespace LLFree.C23
open LLFree

theorem fza_spec (v : BitVec 64) (o : Nat) (ho : o ≤ 6) : FzaSpec v o (Gen.fza v o) := by
  have : o = 0 ∨ o = 1 ∨ o = 2 ∨ o = 3 ∨ o = 4 ∨ o = 5 ∨ o = 6 := by omega
  rcases this with h | h | h | h | h | h | h <;> subst h
  · show FzaSpec v 0 (Gen.fza0 v)
    simp only [Gen.fza0, decide_eq_true_eq]
    exact spec_of_facts v (FzaBv.off0 v) 0 (by decide) 1#64 rfl 1#64 rfl (FzaBv.found0 v) (FzaBv.lowest0 v)
  · show FzaSpec v 1 (Gen.fza1 v)
    simp only [Gen.fza1, decide_eq_true_eq]
    exact spec_of_facts v (FzaBv.off1 v) 1 (by decide) 3#64 rfl 2#64 rfl (FzaBv.found1 v) (FzaBv.lowest1 v)
  · show FzaSpec v 2 (Gen.fza2 v)
    simp only [Gen.fza2, decide_eq_true_eq]
    exact spec_of_facts v (FzaBv.off2 v) 2 (by decide) 15#64 rfl 4#64 rfl (FzaBv.found2 v) (FzaBv.lowest2 v)
  · show FzaSpec v 3 (Gen.fza3 v)
    simp only [Gen.fza3, decide_eq_true_eq]
    exact spec_of_facts v (FzaBv.off3 v) 3 (by decide) 255#64 rfl 8#64 rfl (FzaBv.found3 v) (FzaBv.lowest3 v)
  · show FzaSpec v 4 (Gen.fza4 v)
    simp only [Gen.fza4, decide_eq_true_eq]
    exact spec_of_facts v (FzaBv.off4 v) 4 (by decide) 65535#64 rfl 16#64 rfl (FzaBv.found4 v) (FzaBv.lowest4 v)
  · show FzaSpec v 5 (Gen.fza5 v)
    have key : Gen.fza5 v =
        (if FzaBv.off5 v < 64#64 then some (v ||| (4294967295#64 <<< FzaBv.off5 v), (FzaBv.off5 v).toNat) else none) := by
      simp only [Gen.fza5, FzaBv.off5, beq_iff_eq]
      split
      · simp
      · split <;> simp
    rw [key]
    exact spec_of_facts v (FzaBv.off5 v) 5 (by decide) 4294967295#64 rfl 32#64 rfl (FzaBv.found5 v) (FzaBv.lowest5 v)
  · show FzaSpec v 6 (Gen.fza6 v)
    have key : Gen.fza6 v =
        (if FzaBv.off6 v < 64#64 then some (v ||| (18446744073709551615#64 <<< FzaBv.off6 v), (FzaBv.off6 v).toNat) else none) := by
      simp only [Gen.fza6, FzaBv.off6, beq_iff_eq]
      by_cases h1 : v = 0#64
      · subst h1; simp
      · simp [h1]
    rw [key]
    exact spec_of_facts v (FzaBv.off6 v) 6 (by decide) 18446744073709551615#64 rfl 64#64 rfl (FzaBv.found6 v) (FzaBv.lowest6 v)

/-- Corollary in the property's words: the search reports no block exactly when the row has no
    all-free aligned block of that order. -/
theorem fza_none_iff (v : BitVec 64) (o : Nat) (ho : o ≤ 6) :
    Gen.fza v o = none ↔ ∀ p, p < 64 → p % 2 ^ o = 0 → ¬ blockFree v o p := by
  have h := fza_spec v o ho
  constructor
  · intro hn; rw [hn] at h; exact h
  · intro hall
    cases hr : Gen.fza v o with
    | none => rfl
    | some r =>
      rw [hr] at h
      obtain ⟨v', off⟩ := r
      exact absurd h.2.2.1 (hall off h.1 h.2.1)

/-- Non-vacuity: a row with bits 0..3 set and order 2 yields offset 4 and the row 0xff. -/
example : Gen.fza 0xf#64 2 = some (0xff#64, 4) := by decide +kernel

/-- Non-vacuity: a full row has no free block of any order. -/
example : Gen.fza (BitVec.allOnes 64) 0 = none := by decide +kernel

end LLFree.C23
