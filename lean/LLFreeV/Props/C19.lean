/-
  C19 — Benchmark class configurations always produce valid requests.

  `Gen.Count` (`to_count`, `to_local`) is regenerated from eval/src/classes.rs on every run.
  The matcher outcome (order range and GFP matchers) is an arbitrary predicate, so the theorem
  covers every order, every GFP flag set and every matcher expression at once; class ids may
  repeat (results/classes-ilong.json does), with equal or different slot kinds.
-/
import LLFreeV.Model.Eval
namespace LLFree.C19
open LLFree

/-- The slot index produced for a slot-count kind is below the number of slots configured
    for it, for every core, pid and core count ≥ 1. -/
theorem toLocal_lt_toCount (k : Gen.Count) (core cores pid : Nat) (hc : 1 ≤ cores) :
    k.toLocal core cores pid = none ∨ ∃ i, k.toLocal core cores pid = some i ∧ i < k.toCount cores := by
  cases k with
  | zero => left; rfl
  | one => right; exact ⟨0, rfl, by simp [Gen.Count.toCount]⟩
  | cores => right; exact ⟨core % cores, rfl, Nat.mod_lt _ (by omega)⟩
  | coresHalf =>
    right
    refine ⟨_, rfl, ?_⟩
    simp only [Gen.Count.toCount]
    apply Nat.mod_lt
    omega
  | pids => right; exact ⟨pid % cores, rfl, Nat.mod_lt _ (by omega)⟩

theorem countOf_of_mem (classes : List ClassCfg) (c : ClassCfg) (hc : c ∈ classes) :
    ∃ k, countOf classes c.id = some k := by
  unfold countOf
  cases hf : classes.reverse.find? (fun x => x.id == c.id) with
  | none =>
    rw [List.find?_eq_none] at hf
    exact absurd (by simp) (hf c (List.mem_reverse.2 hc))
  | some d => exact ⟨d.count, rfl⟩

theorem slotCount_eq (classes : List ClassCfg) (cores id : Nat) :
    slotCount classes cores id = (countOf classes id).map (fun k => k.toCount cores) := by
  unfold slotCount countOf
  cases classes.reverse.find? (fun c => c.id == id) <;> rfl

/-- **C19.** For every non-empty class list, every outcome of the matchers, every core, pid and
    core count ≥ 1: the request names a configured class and either no slot or a slot index
    below that class's slot count in `classing(cores)`. -/
theorem request_valid (classes : List ClassCfg) (matched : ClassCfg → Bool) (core cores pid : Nat)
    (hne : classes ≠ []) (hcores : 1 ≤ cores) :
    ∃ cls loc, requestWith classes matched core cores pid = some (cls, loc) ∧
      (∃ c ∈ classes, c.id = cls) ∧
      ∃ n, slotCount classes cores cls = some n ∧ (loc = none ∨ ∃ i, loc = some i ∧ i < n) := by
  have key : ∀ c ∈ classes, ∃ cls loc,
      ((countOf classes c.id).map fun k => (c.id, k.toLocal core cores pid)) = some (cls, loc) ∧
      (∃ c' ∈ classes, c'.id = cls) ∧
      ∃ n, slotCount classes cores cls = some n ∧ (loc = none ∨ ∃ i, loc = some i ∧ i < n) := by
    intro c hc
    obtain ⟨k, hk⟩ := countOf_of_mem classes c hc
    refine ⟨c.id, k.toLocal core cores pid, by simp [hk], ⟨c, hc, rfl⟩, k.toCount cores, ?_,
      toLocal_lt_toCount k core cores pid hcores⟩
    rw [slotCount_eq, hk]; rfl
  unfold requestWith
  cases hf : classes.find? matched with
  | some c => exact key c (List.mem_of_find?_eq_some hf)
  | none =>
    cases classes with
    | nil => exact absurd rfl hne
    | cons c rest => exact key c (by simp)

/-- The concrete request function is the instance with the real matchers. -/
theorem request_valid_concrete (classes : List ClassCfg) (order core cores pid gfp : Nat)
    (hne : classes ≠ []) (hcores : 1 ≤ cores) :
    ∃ cls loc, request classes order core cores pid gfp = some (cls, loc) ∧
      (∃ c ∈ classes, c.id = cls) ∧
      ∃ n, slotCount classes cores cls = some n ∧ (loc = none ∨ ∃ i, loc = some i ∧ i < n) :=
  request_valid classes _ core cores pid hne hcores

/-- Non-vacuity: a class with one slot requests slot 0 (the fixed defect F11 requested 1). -/
example : Gen.Count.toLocal .one 5 4 7 = some 0 ∧ Gen.Count.toCount .one 4 = 1 := by decide

/-- Regression for the fixed defect F14: two entries for class 0 with different kinds; the
    request uses the kind of the class (its last entry), so the slot index is in range. -/
example : requestWith [⟨0, .cores, none, .all []⟩, ⟨0, .one, none, .all []⟩] (fun _ => true) 1 2 0 = some (0, some 0) := by
  decide

end LLFree.C19
