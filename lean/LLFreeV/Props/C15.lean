/-
  C15 — Offline trees are never allocated from; online restores them exactly.

  Proved here (decision logic of `Tree::change`, for every tree entry, matcher and change):
  * `offline_succeeds` — an unreserved entry that satisfies the matcher is taken offline
    (counter := 0), in particular an unreserved entirely free tree (`offline_free_tree`);
  * `change_only_matching` — a change is applied only to an unreserved entry whose class and
    free counter satisfy the matcher; `change_reserved_never`;
  * `online_restores` — bringing a tree with counter 0 online sets the counter to the exact
    count read from the lower allocator and the class to the requested one; a tree with a
    non-zero counter is not "onlined" (`online_nonempty_skips`);
  * `offline_blocks_steal` / `offline_blocks_reserve` / `offline_blocks_sync` — an offline entry
    (counter 0, unreserved) rejects every steal/reserve of a positive number of frames and every
    sync, for every policy: no allocation path through the tree array can take frames from it.

  * `change_tree_spec` — the whole call (by id and by search) in every reachable state: no
    panic, a refused change changes nothing, a successful one touches one unreserved matching
    tree, keeps allocation state and invariant, `Online` restores the counter to exactly the
    free frames of the tree; `offline_no_slot` — no local reservation names an unreserved tree.

  * `offline_never_allocated` — **the composed statement, for every history**: in every state
    satisfying the upper invariant (every state of every sequential history of a constructed
    allocator) a tree whose counter is 0 and that is not reserved — a tree taken offline and not
    yet online again — is never allocated from: no `get`, with or without a target frame,
    through any slot, on any path (own reservation, sync, search, steal, demote), returns one of
    its frames. It follows without a walk through the paths from *exact accounting*
    (`UpperInv.counter`: tree counter + reservations + hidden frames `H i` = free frames of the
    tree, with the same `H` before and after an allocation): `allocation_paid_by_tree` — the
    counters of the tree of a returned block covered the block before the call;
  * `change_tree_spec` also says what happens to the hidden amounts: `Offline` moves the counter
    into `H i`, a successful `Online` sets `H i = 0` (exact restoration), nothing else changes `H`.
  The fast free count excludes exactly the hidden frames: C04 `fast_counters_exact`.

  * `conc_hidden_frames_stay_free` — **under every interleaving** of any number of threads that
    allocate, free, drain and change trees (class changes, `Offline`; by id or by search): at
    every quiescent end the frames hidden by `Offline` (`H'`, which only grew) are still free
    frames of their trees in addition to everything the counters promise — nothing was allocated
    from them, whatever raced with the `Offline` call (`Proofs/ConcChange.lean`). `Online` under
    interleavings is refuted (C04 `k3_online_race_overreports`: restoration is *not* exact when a
    free is in flight).

  * `change_matches_source` — `Tree::change` is re-derived from the Rust source on every run
    (`tools/rs2lean.py`, `Gen/Tree.lean`) and proved equal to the model's transition.
-/
import LLFreeV.Proofs.UpperInit
import LLFreeV.Proofs.UpperPays
import LLFreeV.Proofs.ConcChange
import LLFreeV.Proofs.GenTree
namespace LLFree.C15
open LLFree

/-- the matcher of `change_tree` on an entry -/
def Matches (t : Tree) (mcls : Option Nat) (mfree : Nat) : Prop :=
  t.reserved = false ∧ Tree.matchCls mcls t.cls = true ∧ t.free ≥ mfree

theorem change_only_matching (t s : Tree) (mcls : Option Nat) (mfree : Nat) (ccls : Option Nat) (op : Option Tree.Op)
    (ff : Nat) (h : t.change mcls mfree ccls op ff = .set s) : Matches t mcls mfree := by
  unfold Tree.change at h
  by_cases hc : (!t.reserved && Tree.matchCls mcls t.cls && decide (t.free ≥ mfree)) = true
  · simp only [Bool.and_eq_true, Bool.not_eq_true', decide_eq_true_eq] at hc
    exact ⟨hc.1.1, hc.1.2, hc.2⟩
  · simp only [hc] at h; cases h

theorem change_reserved_never (t : Tree) (mcls : Option Nat) (mfree : Nat) (ccls : Option Nat) (op : Option Tree.Op)
    (ff : Nat) (h : t.reserved = true) : t.change mcls mfree ccls op ff = .skip := by
  simp [Tree.change, h]

theorem change_of_matches (t : Tree) (mcls : Option Nat) (mfree : Nat) (ccls : Option Nat) (op : Option Tree.Op)
    (ff : Nat) (hm : Matches t mcls mfree) (hc : ∀ k, ccls = some k → k < 8) :
    t.change mcls mfree ccls op ff = Tree.changeOp { t with cls := ccls.getD t.cls } op ff := by
  obtain ⟨h1, h2, h3⟩ := hm
  obtain ⟨fr, rs, cl⟩ := t
  simp only at h1 h2 h3
  subst h1
  unfold Tree.change
  simp only [Bool.not_false, Bool.true_and, h2, h3, decide_true, Bool.and_self, if_true]
  cases ccls with
  | none => rfl
  | some k => simp [Tree.clsOk, hc k rfl]

/-- **Offline succeeds** on every unreserved matching entry (class change to a class id < 8 or none). -/
theorem offline_succeeds (t : Tree) (mcls : Option Nat) (mfree : Nat) (ccls : Option Nat) (ff : Nat)
    (hm : Matches t mcls mfree) (hc : ∀ k, ccls = some k → k < 8) :
    t.change mcls mfree ccls (some .offline) ff =
      .set { free := 0, reserved := t.reserved, cls := ccls.getD t.cls } := by
  rw [change_of_matches t mcls mfree ccls _ ff hm hc]; rfl

/-- in particular: an unreserved, entirely free tree matched by id -/
theorem offline_free_tree (tf cls : Nat) (ff : Nat) :
    (⟨tf, false, cls⟩ : Tree).change none tf none (some .offline) ff = .set ⟨0, false, cls⟩ := by
  rw [offline_succeeds _ none tf none ff ⟨rfl, rfl, Nat.le_refl _⟩ (by simp)]
  rfl

/-- **Online restores exactly**: counter := the count fetched from the lower allocator, class :=
    the requested one. -/
theorem online_restores (t : Tree) (mcls : Option Nat) (ccls : Option Nat) (ff : Nat)
    (hm : Matches t mcls 0) (hz : t.free = 0) (hc : ∀ k, ccls = some k → k < 8) (hff : ff < 2 ^ 28) :
    t.change mcls 0 ccls (some .online) ff =
      .set { free := ff, reserved := t.reserved, cls := ccls.getD t.cls } := by
  rw [change_of_matches t mcls 0 ccls _ ff hm hc]
  simp [Tree.changeOp, hz, hff]

/-- a tree whose counter is not 0 is not brought online -/
theorem online_nonempty_skips (t : Tree) (mcls : Option Nat) (mfree : Nat) (ff : Nat) (hz : t.free ≠ 0) :
    t.change mcls mfree none (some .online) ff = .skip := by
  unfold Tree.change
  split
  · simp [Tree.changeOp, hz]
  · rfl

/-- **An offline entry gives no frames away**, whatever the policy says. -/
theorem offline_blocks_steal (t : Tree) (cls n : Nat) (policy : PolicyFn) (hz : t.free = 0) (hn : 0 < n) :
    t.steal cls n policy = none := by
  have : ¬ t.free ≥ n := by omega
  simp [Tree.steal, this]

theorem offline_blocks_reserve (tf : Nat) (t : Tree) (cls n : Nat) (policy : PolicyFn) (hz : t.free = 0) (hn : 0 < n) :
    t.reserveOrSteal tf n policy cls = .skip := by
  have : ¬ t.free ≥ n := by omega
  simp [Tree.reserveOrSteal, this]

/-- the sync of a slot with its reserved tree cannot touch an offline tree: offline trees are
    unreserved (`change` applies to unreserved entries only) and `sync_steal` requires `reserved` -/
theorem offline_blocks_sync (t : Tree) (min : Nat) (hr : t.reserved = false) : t.syncSteal min = none := by
  simp [Tree.syncSteal, hr]


/-- **`LLFree::change_tree`** (by id or by search), every reachable state: never panics; a
    refused change changes nothing; a successful change touches exactly one tree entry, keeps
    the allocation state and the invariant; `Offline` leaves the tree unreserved with counter 0
    (its frames are hidden: the fast count excludes them, C04.fast_counters_exact); a
    successful `Online` restores the counter to exactly the free frames of the tree (the tree
    leaves the hidden set). -/
theorem change_tree_spec (c : Cfg) (ok : CfgOk c) (H : Nat → Nat) (m : Mem) (inv : UpperInv0 c H m)
    (mid mcls : Option Nat) (mfree : Nat) (ccls : Option Nat) (op : Option Tree.Op) (hccls : ∀ k, ccls = some k → k < 8) :
    Runs m (changeTree c mid mcls mfree ccls op) (fun res m' =>
      (res ≠ .ok () → m = m') ∧ ∃ H' i, ChangePost c H H' m m' i op res ∧ (∀ j, mid = some j → i = j)) :=
  changeTree_spec ok inv mid mcls mfree ccls op hccls

/-- an offline tree (unreserved, counter 0) is not usable for any allocation path through the
    tree array: `steal`, `reserve_or_steal` and `sync` refuse it (above), and no slot names it
    (`UpperInv.slotTree`: slots name reserved trees only). -/
theorem offline_no_slot (c : Cfg) (H : Nat → Nat) (m : Mem) (inv : UpperInv0 c H m) (i : Nat) (t : Tree)
    (ht : m.trees[i]? = some t) (hr : t.reserved = false) (s : Nat) (l : LTree) (hl : m.slots[s]? = some l)
    (hp : l.present = true) : l.row / c.geom.treeRows ≠ i := by
  intro e
  obtain ⟨k, hk⟩ := inv.slotCls s l hl hp
  obtain ⟨t', ht', hr', _⟩ := inv.slotTree s l k hl hp hk
  rw [e, ht] at ht'; cases ht'
  rw [hr] at hr'; cases hr'

/-- the counters of the tree of a returned block covered the block before the call -/
theorem allocation_paid_by_tree (c : Cfg) (ok : CfgOk c) (H : Nat → Nat) (m : Mem) (inv : UpperInv0 c H m) (frame : Option Nat)
    (r : Request) (hcls : r.cls < 8) (hloc : r.locOk c) (hv : C08.ArgsValid c (frame.getD 0) r) :
    Runs m (get c frame r) (fun res m' => UpperInv0 c H m' ∧ GetOutcome c m r.order frame res m' ∧
      ∀ f k, res = .ok (f, k) → ∀ t : Tree, m.trees[f / c.geom.treeFrames]? = some t →
        2 ^ r.order ≤ t.free + m.slotFree c.geom.treeRows (f / c.geom.treeFrames)) :=
  get_pays ok inv frame r hcls hloc hv

/-- **An offline tree is never allocated from, in any state of any history.** -/
theorem offline_never_allocated (c : Cfg) (ok : CfgOk c) (H : Nat → Nat) (m : Mem) (inv : UpperInv0 c H m) (frame : Option Nat)
    (r : Request) (hcls : r.cls < 8) (hloc : r.locOk c) (hv : C08.ArgsValid c (frame.getD 0) r) (i : Nat) (t : Tree)
    (ht : m.trees[i]? = some t) (hfree : t.free = 0) (hres : t.reserved = false) :
    Runs m (get c frame r) (fun res m' => UpperInv0 c H m' ∧ GetOutcome c m r.order frame res m' ∧
      ∀ f k, res = .ok (f, k) → f / c.geom.treeFrames ≠ i) :=
  LLFree.offline_never_allocated ok inv frame r hcls hloc hv i t ht hfree hres

/-- **Offline under every interleaving**: threads run arbitrary lists of public calls and
    `change_tree` calls (class change and/or `Offline`); at every quiescent end the invariant holds
    with hidden frames `H' ≥ H`, and for every tree the hidden frames are free frames beyond what
    the tree counter and the reservations on the tree account for. -/
theorem conc_hidden_frames_stay_free (c : Cfg) (ok : CfgOk c) (H : Nat → Nat) (m : Mem) (inv : UpperInv0 c H m)
    (n : Nat) (cmds : Nat → List CCmd) (hvalid : ∀ k, ∀ x ∈ cmds k, x.valid c) (sched : List Nat) (hsched : ∀ k ∈ sched, k < n)
    (hdone : ∀ k, k < n → ∃ held, ((concRun sched (m, fun k => Th.at (runUC c (cmds k) ⟨[], []⟩))).2 k).step
      (concRun sched (m, fun k => Th.at (runUC c (cmds k) ⟨[], []⟩))).1 = .done held) :
    let m' := (concRun sched (m, fun k => Th.at (runUC c (cmds k) ⟨[], []⟩))).1
    ∃ H', (∀ i, H i ≤ H' i) ∧ UpperInv0 c H' m' ∧
      ∀ i t, m'.trees[i]? = some t → t.free + m'.slotFree c.geom.treeRows i + H' i = m'.freeInTree c.geom i := by
  obtain ⟨H', hle, hinv⟩ := upper_conc_quiescent_change ok H m inv n cmds hvalid sched hsched hdone
  refine ⟨H', hle, hinv, fun i t ht => ?_⟩
  have := hinv.counter i t ht
  simpa using this

/-- **`Tree::change` of the model is the one of the current source** (`Gen/Tree.lean`, regenerated
    from `core/src/trees.rs` on every run): same new entry, same refusal, panic exactly together —
    for every entry, matcher, change and fetched count. -/
theorem change_matches_source (self : Tree) (mcls : Option Nat) (mfree : Nat) (ccls : Option Nat) (op : Option Gen.T.Op) (ff : Nat) :
    GenTree.Sim (GenTree.ofRO (Gen.T.change self mcls mfree ⟨ccls, op⟩ ff)) (Tree.change self mcls mfree ccls (GenTree.opOf op) ff) :=
  GenTree.change_eq self mcls mfree ccls op ff

end LLFree.C15
