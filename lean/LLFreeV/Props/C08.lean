/-
  C08 — Invalid arguments are rejected with an error and no side effects.

  * `check_matches_source` — the conditions of `LLFree::check` are re-derived from the Rust source
    on every run (`tools/rs2lean.py`, `Gen/Check.lean`) and their conjunction is `ArgsValid`.

  * `metadata_sizes_match_source` — the three `metadata_size` computations are re-derived from the
    Rust source on every run (`tools/rs2lean.py`, `Gen/Meta.lean`) and equal the model's sizes
    (`Proofs/GenMeta.lean`; the `size_of`/`align_of` values of the five element types are listed
    there and cross-checked by the unit differential `meta`).
-/
import LLFreeV.Proofs.Run
import LLFreeV.Model.Wrapper
import LLFreeV.Gen.Check
import LLFreeV.Proofs.GenMeta
import LLFreeV.Proofs.GenZone
namespace LLFree.C08
open LLFree Prog

/-- The arguments of an allocation or free are valid. -/
def ArgsValid (c : Cfg) (frame : Nat) (r : Request) : Prop :=
  r.order ≤ c.geom.treeOrder ∧ frame + 2 ^ r.order < 2 ^ 64 ∧ frame + 2 ^ r.order ≤ c.frames ∧
  frame % 2 ^ r.order = 0 ∧ (c.slotRange r.cls).isSome = true

instance (c : Cfg) (frame : Nat) (r : Request) : Decidable (ArgsValid c frame r) := by
  unfold ArgsValid; infer_instance

theorem classLocals_spec (c : Cfg) (m : Mem) (k : Nat) (hk : k < 8) :
    runSolo (Locals.classLocals c k) m = (m, .ok ((c.slotRange k).map (·.2))) := by
  have hn : ¬ k ≥ 8 := by omega
  simp [Locals.classLocals, Locals.classRange, hn]

/-- `check` is a pure function of its arguments: it touches no memory. -/
theorem check_spec (c : Cfg) (m : Mem) (frame : Nat) (r : Request) (hcls : r.cls < 8) :
    runSolo (check c frame r) m =
      (m, .ok (if ArgsValid c frame r then .ok () else .error .argument)) := by
  unfold check
  split
  · rename_i h
    have : ¬ ArgsValid c frame r := by
      intro hv; simp [hv.1] at h
    simp [this]
  · rename_i h1
    have h1' : r.order ≤ c.geom.treeOrder := by simpa using h1
    split
    · rename_i h
      have : ¬ ArgsValid c frame r := by
        intro hv; simp [hv.2.1, hv.2.2.1] at h
      simp [this]
    · rename_i h2
      have h2' : frame + 2 ^ r.order < 2 ^ 64 ∧ frame + 2 ^ r.order ≤ c.frames := by simpa using h2
      split
      · rename_i h
        have : ¬ ArgsValid c frame r := fun hv => h hv.2.2.2.1
        simp [this]
      · rename_i h3
        have h3' : frame % 2 ^ r.order = 0 := by simpa using h3
        rw [runSolo_bind, classLocals_spec c m r.cls hcls]
        simp only [andThen_ok, runSolo_pure]
        by_cases hs : (c.slotRange r.cls).isSome = true
        · have : ArgsValid c frame r := ⟨h1', h2'.1, h2'.2, h3', hs⟩
          simp [this, hs]
        · have : ¬ ArgsValid c frame r := fun hv => hs hv.2.2.2.2
          simp only [this, if_false]
          cases hsr : c.slotRange r.cls with
          | none => rfl
          | some x => simp [hsr] at hs

/-- **C08 (allocation).** An allocation with an order above the tree order, a block extending
    past the managed range, a misaligned frame or an unconfigured class (ids 0..7) returns
    `Argument` and leaves the *whole* metadata unchanged. -/
theorem get_invalid_rejected (c : Cfg) (m : Mem) (frame : Option Nat) (r : Request) (hcls : r.cls < 8)
    (hinv : ¬ ArgsValid c (frame.getD 0) r) :
    runSolo (get c frame r) m = (m, .ok (.error .argument)) := by
  unfold get
  simp [check_spec c m _ r hcls, hinv]

/-- **C08 (free).** -/
theorem put_invalid_rejected (c : Cfg) (m : Mem) (frame : Nat) (r : Request) (hcls : r.cls < 8)
    (hinv : ¬ ArgsValid c frame r) :
    runSolo (put c frame r) m = (m, .ok (.error .argument)) := by
  unfold put
  simp [check_spec c m _ r hcls, hinv]

/-- Conversely, valid arguments are never rejected by the argument check. -/
theorem check_valid (c : Cfg) (m : Mem) (frame : Nat) (r : Request) (hcls : r.cls < 8)
    (h : ArgsValid c frame r) : runSolo (check c frame r) m = (m, .ok (.ok ())) := by
  simp [check_spec c m frame r hcls, h]

/-- **C08 (zone wrapper).** A frame below the zone offset is rejected with `Argument` without
    calling the inner allocator, for allocation, free alike. -/
theorem zone_get_below_offset (c : Cfg) (off : Nat) (m : Mem) (frame : Nat) (r : Request) (h : frame < off) :
    runSolo (Zone.get c off (some frame) r) m = (m, .ok (.error .argument)) := by
  simp [Zone.get, Zone.toInner, h]

theorem zone_put_below_offset (c : Cfg) (off : Nat) (m : Mem) (frame : Nat) (r : Request) (h : frame < off) :
    runSolo (Zone.put c off frame r) m = (m, .ok (.error .argument)) := by
  simp [Zone.put, Zone.toInner, h]

/-- **C08 (construction).** `MetaData::valid`: buffers that are too small, misaligned, or whose
    (non-empty) ranges intersect make `new` return `Initialization`. -/
theorem new_rejects_small (c : Cfg) (b : MetaBufs) (h : b.localLen < localsSize c.classes ∨
    b.treesLen < treesSize c.geom c.frames ∨ b.lowerLen < lowerSize c.geom c.frames) :
    metaValid c b = false := by
  unfold metaValid
  rcases h with h | h | h <;> simp [h] <;> omega

theorem new_rejects_misaligned (c : Cfg) (b : MetaBufs)
    (h : b.localAddr % 64 ≠ 0 ∨ b.treesAddr % 64 ≠ 0 ∨ b.lowerAddr % 64 ≠ 0) :
    metaValid c b = false := by
  unfold metaValid
  rcases h with h | h | h <;> simp [h]

/-- the source's `overlap` is exactly interval intersection for non-empty ranges -/
theorem overlap_iff (a la b lb : Nat) (ha : 0 < la) (hb : 0 < lb) :
    overlap a la b lb = true ↔ (a < b + lb ∧ b < a + la) := by
  unfold overlap
  simp only [Bool.or_eq_true, Bool.and_eq_true, decide_eq_true_eq]
  constructor
  · intro h; omega
  · intro h; omega

theorem new_rejects_overlap (c : Cfg) (b : MetaBufs)
    (h : overlap b.localAddr b.localLen b.treesAddr b.treesLen = true ∨
         overlap b.treesAddr b.treesLen b.lowerAddr b.lowerLen = true ∨
         overlap b.lowerAddr b.lowerLen b.localAddr b.localLen = true) :
    metaValid c b = false := by
  unfold metaValid
  rcases h with h | h | h <;> simp [h]

/-- Non-vacuity: one frame past the end of a 2-tree allocator is invalid, the last frame valid. -/
example : ¬ ArgsValid ⟨⟨9, 4⟩, 4096, [(0, 1)], 0, fun _ _ _ => .invalid⟩ 4096 ⟨0, 0, none⟩ ∧
    ArgsValid ⟨⟨9, 4⟩, 4096, [(0, 1)], 0, fun _ _ _ => .invalid⟩ 4095 ⟨0, 0, none⟩ := by
  constructor <;> decide

/-- **The argument check of the model is the one of the current source**: the `ensure!` conditions of
    `LLFree::check` are regenerated from `core/src/llfree.rs` on every run (`Gen/Check.lean`; the
    translator also checks that a failing `ensure!` returns `Error::Argument`); their conjunction is
    exactly `ArgsValid` — the predicate `check_spec` shows the model's `check` to decide. -/
theorem check_matches_source (c : Cfg) (frame : Nat) (r : Request) :
    Gen.C.check c.geom.treeOrder c.frames frame r.order ((c.slotRange r.cls).map (·.2)) = decide (ArgsValid c frame r) := by
  unfold Gen.C.check Gen.C.checkConds ArgsValid
  simp only [List.all_cons, List.all_nil, id, Bool.and_true, Nat.one_shiftLeft, Option.isSome_map]
  by_cases h1 : r.order ≤ c.geom.treeOrder <;> by_cases h2 : frame + 2 ^ r.order < 2 ^ 64 <;>
    by_cases h3 : frame + 2 ^ r.order ≤ c.frames <;> by_cases h4 : frame % 2 ^ r.order = 0 <;>
    by_cases h5 : (c.slotRange r.cls).isSome = true <;> simp [h1, h2, h3, h4, h5]

/-- **The buffer sizes of the model are those of the current source**: `Trees::metadata_size`,
    `Lower::metadata_size` (through `Metadata::new`) and `Locals::metadata_size` are regenerated from
    the source on every run (`Gen/Meta.lean`: `div_ceil`, `next_multiple_of`, `size_of_slice` as written)
    and, for the type sizes of `GenTree.tyOf`, equal the sizes the layout theorems are about. -/
theorem metadata_sizes_match_source (g : Geom) (frames : Nat) (classes : List (Nat × Nat)) :
    Gen.M.treesSize (GenTree.tyOf g) g.treeFrames frames = treesSize g frames ∧
    Gen.M.lowerSize (GenTree.tyOf g) g.hugeFrames g.treeFrames frames = lowerSize g frames ∧
    Gen.M.localsSize (GenTree.tyOf g) ((classes.map (·.2)).sum) = localsSize classes :=
  ⟨GenTree.treesSize_eq g frames, GenTree.lowerSize_eq g frames, GenTree.localsSize_eq g classes⟩

/-- **A frame below the zone offset is rejected by the current source before the wrapped allocator is called**:
    `ZoneAlloc::get` / `ZoneAlloc::put` as regenerated from `core/src/wrapper.rs` (`Gen/Zone.lean`) return
    `Error::Argument` for every wrapped allocator `inner` — which is never consulted, so there is no side effect —
    and `stats_at` returns the default statistics. -/
theorem zone_below_offset_matches_source (off frame : Nat) (h : frame < off) :
    (∀ inner, Gen.Z.get inner off (some frame) = .error .argument) ∧
    (∀ inner, Gen.Z.put inner off frame = .error .argument) ∧
    (∀ inner : Nat → Stats, Gen.Z.statsAt inner off frame = none) := by
  have ht : Zone.toInner off frame = none := by simp [Zone.toInner, h]
  refine ⟨fun inner => ?_, fun inner => ?_, fun inner => ?_⟩
  · rw [GenZone.get_eq]; simp [ht]
  · rw [GenZone.put_eq]; simp [ht]
  · rw [GenZone.statsAt_eq]; simp [ht]

end LLFree.C08
