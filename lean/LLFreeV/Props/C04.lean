/-
  C04 — Fast and exact accounting agree with the allocation state when quiescent.

  Proved here (the exact views, from the lower invariant, for every geometry and frame count):
  * `huge_free_exact` — the free counter a huge-frame entry reports (`HugeEntry::free`) is the
    number of free frames of that huge frame in the allocation state (0 for a huge allocation);
  * `huge_entirely_free_iff` — the entry reports the full counter iff every frame of the huge
    frame is free (what `free_huge` counts);
  * `stats_at_huge_exact` — the per-huge-frame query `stats_at(frame, HUGE_ORDER)` returns
    exactly these numbers, without modifying anything and without panicking;
  * sums over trees/all entries are the same facts added up (`Lower::stats` is a fold of
    `HugeEntry::free` over the table).

  * `stats_exact` — `stats()` returns exactly the totals of the allocation state (free frames,
    entirely free huge frames, entirely free trees); `stats_at_tree_exact`;
  * `fast_counters_exact` — in every reachable state the fast counters (tree entry + local
    reservations on the tree) plus the frames of the tree hidden by `Offline` (`H i`, exact
    ghost accounting of the upper invariant) are exactly the free frames of the tree:
    "fast = exact − offline" tree by tree.

  * `tree_stats_total` / `fast_total_exact` — the program `tree_stats()` never panics, reads only,
    and its free total plus the frames hidden by `Offline` equals the exact total that `stats()`
    reports: **fast = exact − offline as numbers**, in every invariant state (a partition
    argument: the present slots visited class by class are exactly those counted per tree);
  * `conc_quiescent_counters_exact` — at the quiescent end of every interleaving of threads using
    the lower allocator every huge-entry counter is exact again.

  * `validate_passes` — all assertions of `validate()` hold in every invariant state without
    offline trees (`Proofs/Validate.lean`: as many reserved trees as reservations — a counting
    argument —, reservation + tree counter = free frames of the tree, unreserved counters exact).

  * `stats_at_frame_exact` / `is_free_exact` — the per-frame query `stats_at(frame, 0)` reports one
    free frame exactly if the frame is not allocated, and `is_free(frame, order)` answers exactly
    whether every frame of the (aligned, in-range) block is free — every order 0..TREE_ORDER: the
    counter shortcuts, the single-row mask test, the whole-row loop and the table-entry loop;
    both read only and never panic (`Proofs/LowerQuery.lean`).

  * `conc_quiescent_upper_invariant` — **every quiescent state of every interleaving** of any
    number of threads running public calls (get on every path, put of held blocks at their order,
    drain) satisfies the sequential upper invariant again (`Proofs/ConcUpper*.lean`: upper ghost
    state per thread — frames taken out of the counters, carried reservations —, legal
    transitions of tree entries and slots, invariance of the free-or-held count under every step
    of the lower allocator); hence `conc_quiescent_fast_total` (tree_stats + hidden = stats) and
    `conc_quiescent_validate_passes` at the quiescent end of every interleaving in which every
    call returned.

  * `conc_quiescent_with_tree_changes` / `conc_quiescent_with_tree_changes_fast_total` — the same with
    `change_tree` calls (class changes, `Offline`) among the concurrent calls: every quiescent
    state satisfies the sequential invariant for hidden frames `H' ≥ H` (what the `Offline` calls
    took out of the counters), so fast total + hidden = exact total again (`Proofs/ConcChange.lean`:
    taking a tree offline is a legal transition whose frames move to the ghost of the caller).
    `Online` cannot be added: K3.

  * `k3_online_race_overreports` — **refutation** (known finding K3) of the concurrent clause for
    histories with tree changes: a free into an offline tree racing with `change_tree(Online)`
    leaves the tree counter one block above the free frames at the quiescent end.

  PARTIAL: the conclusion is stated for interleavings in which every call has returned (a call
  that trapped keeps what it carried); frees of parts of huge allocations (K1) and `change_tree`
  under interleavings (K2/K3: refuted for Online) are carried by the correspondence (statistics, `stats_at`, `is_free`,
  `tree_stats` and `validate()` compared with the ownership model after every call of every
  sequential history and at the quiescent end of every explored interleaving).

  * `counter_transitions_match_source` — the entry transitions that move counters (`Tree::with`,
    `Tree::put`, all of `impl LocalTree`) are re-derived from the Rust source on every run
    (`tools/rs2lean.py`, `Gen/Tree.lean`, `Gen/Local.lean`) and proved equal to the model's.

  * `huge_entry_transitions_match_source` — `impl HugeEntry` (the counters and the huge marker of
    the lower allocator) is re-derived from the Rust source on every run (`tools/rs2lean.py`,
    `Gen/Huge.lean`) and proved equal to the model's transitions (`Proofs/GenTree.lean`).
-/
import LLFreeV.Proofs.UpperInit
import LLFreeV.Proofs.OwnLowerThreads
import LLFreeV.Proofs.TreeStats
import LLFreeV.Proofs.FastTotal
import LLFreeV.Proofs.Validate
import LLFreeV.Proofs.LowerQuery
import LLFreeV.Proofs.ConcUpperThreads
import LLFreeV.Proofs.ConcChange
import LLFreeV.Proofs.GenTree
import LLFreeV.Proofs.GenLocal
import LLFreeV.Proofs.GenHuge
namespace LLFree.C04
open LLFree Prog

/-- number of free frames of huge frame `h` in the allocation state -/
def freeInHuge (g : Geom) (m : Mem) (h : Nat) : Nat :=
  (List.range g.hugeFrames).countP (fun i => !m.allocated g (h * g.hugeFrames + i))

/-- **The counter is exact.** -/
theorem huge_free_exact (c : Cfg) (okg : GeomOk c.geom) (m : Mem) (inv : LowerInv c m) (h : Nat) (hh : h < c.nhuge) :
    Huge.free (m.hugeE h) = freeInHuge c.geom m h := by
  have hHF := okg.hf_pos
  unfold freeInHuge
  by_cases hm : Huge.isHuge (m.hugeE h) = true
  · -- allocated as a whole: every frame allocated
    have : (List.range c.geom.hugeFrames).countP (fun i => !m.allocated c.geom (h * c.geom.hugeFrames + i)) = 0 := by
      rw [List.countP_eq_zero]
      intro i hi
      have hi' := List.mem_range.1 hi
      simp [Mem.allocated, div_hf_mul_add c.geom hHF h i hi', hm]
    rw [this]; simp [Huge.free, hm]
  · have hnm : Huge.isHuge (m.hugeE h) = false := by simpa using hm
    rw [Huge.free_of_not_huge _ hnm, inv.count h hh hnm]
    unfold zerosIn
    apply countP_range_eq_of_eq
    intro i hi
    simp [Mem.allocated, div_hf_mul_add c.geom hHF h i hi, hnm]

/-- **Entirely free huge frames** are exactly those whose entry holds the full counter. -/
theorem huge_entirely_free_iff (c : Cfg) (ok : GeomOk16 c.geom) (m : Mem) (inv : LowerInv c m) (h : Nat) (hh : h < c.nhuge) :
    Huge.free (m.hugeE h) = c.geom.hugeFrames ↔
      ∀ i, i < c.geom.hugeFrames → m.allocated c.geom (h * c.geom.hugeFrames + i) = false := by
  have okg := ok.toGeomOk
  rw [inv.huge_free_iff okg ok.hf_lt h hh]
  constructor
  · intro hf
    have hnm : Huge.isHuge (m.hugeE h) = false := by
      cases hx : Huge.isHuge (m.hugeE h) with
      | false => rfl
      | true =>
        simp [Huge.free, hx] at hf
        have := okg.hf_pos; omega
    rwa [Huge.free_of_not_huge _ hnm] at hf
  · intro hf
    have hnm : Huge.isHuge (m.hugeE h) = false := by
      rw [hf]; simp [Huge.isHuge, HugeMarker]; have := ok.hf_lt; omega
    rw [Huge.free_of_not_huge _ hnm]; exact hf

/-- **`stats_at(frame, HUGE_ORDER)`** returns the exact numbers, reads only, never panics. -/
theorem stats_at_huge_exact (c : Cfg) (ok : GeomOk16 c.geom) (m : Mem) (inv : LowerInv c m) (frame : Nat)
    (hf : frame < c.frames) (hne : c.geom.hugeOrder ≠ 0) :
    runSolo (Lower.statsAt c.geom frame c.geom.hugeOrder) m =
      (m, .ok { freeFrames := freeInHuge c.geom m (frame / c.geom.hugeFrames),
                freeHuge := freeInHuge c.geom m (frame / c.geom.hugeFrames) / c.geom.hugeFrames }) := by
  have okg := ok.toGeomOk
  have hh : frame / c.geom.hugeFrames < c.nhuge := nhuge_lt_of_frame okg frame 1 (by omega) (by omega)
  have hidx := okg.hugeIdx_eq frame
  have hhsz := huge_lt_size okg inv _ hh
  have hE : m.get? .huge (frame / c.geom.hugeFrames) = some (m.hugeE (frame / c.geom.hugeFrames)) := by
    simp only [Mem.get?_huge]; unfold Mem.hugeE
    rw [Array.getElem?_eq_getElem hhsz]; rfl
  -- the first table entry of the tree exists as well
  have h0 : frame / c.geom.treeFrames * c.geom.treeHuge + 0 < m.huge.size := by
    have := Nat.mod_lt (frame / c.geom.hugeFrames) okg.th_pos
    omega
  have hE0 : m.get? .huge (hugeIdx c.geom (frame / c.geom.treeFrames) 0) = some (m.huge[frame / c.geom.treeFrames * c.geom.treeHuge + 0]'h0) := by
    simp only [Mem.get?_huge, hugeIdx]; exact Array.getElem?_eq_getElem h0
  unfold Lower.statsAt
  simp only [runSolo, hE0, hne, if_false, if_true]
  simp only [runSolo_bind, hugeIdx, hidx, runSolo_loadK_some hE, andThen_ok, runSolo_pure]
  rw [huge_free_exact c okg m inv _ hh]


/-- **`stats()`** (the exact view) returns exactly the number of free frames, of entirely free
    huge frames and of entirely free trees of the allocation state, reads only, never panics. -/
theorem stats_exact (c : Cfg) (okg : GeomOk c.geom) (m : Mem) (inv : LowerInv c m) :
    Runs m (stats c) (fun r m' => m = m' ∧ r.freeFrames = m.freeTotal c.geom c.ntrees ∧
      r.freeTrees = m.freeTreesCount c.geom c.ntrees ∧ r.freeHuge = m.freeHugeCount c.geom c.ntrees) :=
  lower_stats_spec okg m inv

/-- **`stats_at(tree start, TREE_ORDER)`** reports exactly the free frames of the tree. -/
theorem stats_at_tree_exact (c : Cfg) (okg : GeomOk c.geom) (m : Mem) (inv : LowerInv c m) (i : Nat) (hi : i < c.ntrees) :
    Runs m (Lower.statsAt c.geom (i * c.geom.treeFrames) c.geom.treeOrder) (fun st m' => m = m' ∧
      st.freeFrames = m.freeInTree c.geom i) := statsAt_tree_spec okg m inv i hi

/-- **`stats_at(frame, 0)`** (the per-frame query): one free frame exactly if the frame is not
    allocated; reads only, never panics. -/
theorem stats_at_frame_exact (c : Cfg) (ok : GeomOk16 c.geom) (m : Mem) (inv : LowerInv c m) (f : Nat) (hf : f < c.frames) :
    runSolo (Lower.statsAt c.geom f 0) m =
      (m, .ok { freeFrames := if m.allocated c.geom f then 0 else 1 }) :=
  statsAt_frame_exact ok m inv f hf

/-- **`is_free(frame, order)`** answers `true` exactly if no frame of the block is allocated, for
    every order up to the tree order and every aligned block inside the managed range (the
    arguments the source asserts); reads only, never panics. -/
theorem is_free_exact (c : Cfg) (ok : GeomOk16 c.geom) (m : Mem) (inv : LowerInv c m) (frame order : Nat)
    (hal : frame % 2 ^ order = 0) (hin : frame + 2 ^ order ≤ c.frames) (hto : order ≤ c.geom.treeOrder) :
    ∃ b, runSolo (Lower.isFree c.geom frame order) m = (m, .ok b) ∧
      (b = true ↔ ∀ i, i < 2 ^ order → m.allocated c.geom (frame + i) = false) :=
  isFree_exact ok m inv frame order hal hin hto

/-- **Fast = exact − hidden, per tree**: in every reachable state (between calls) the counter of
    a tree plus the counters of the reservations on it plus the frames hidden by `Offline`
    (`H i`) is exactly the number of free frames of the tree. -/
theorem fast_counters_exact (c : Cfg) (H : Nat → Nat) (m : Mem) (inv : UpperInv0 c H m) (i : Nat) (t : Tree)
    (ht : m.trees[i]? = some t) :
    t.free + m.slotFree c.geom.treeRows i + H i = m.freeInTree c.geom i := by
  have h1 := inv.counter i t ht
  omega

/-- the fast view as a program: `tree_stats()` returns the sum of the tree counters plus the
    counters of the present local reservations (each of which `fast_counters_exact` relates to
    the allocation state tree by tree), without panic and without writing -/
theorem tree_stats_total (c : Cfg) (H : Nat → Nat) (ok : CfgOk c) (m : Mem) (inv : UpperInv0 c H m) :
    Runs m (treeStats c) (fun s m' => m = m' ∧
      ∃ s0, runSolo (Trees.stats c) m = (m, .ok s0) ∧ s.freeFrames = s0.freeFrames + slotSum c m) :=
  (treeStats_spec c m ok inv).mono (fun _ _ h => ⟨h.1, h.2.2.2⟩)

/-- **Fast = exact − offline, as program outputs**: in every state satisfying the upper
    invariant (every state of every sequential history of a constructed allocator),
    `tree_stats().free_frames` plus the frames hidden by `Offline` (Σ_i `H i`) is the exact number
    of free frames — the number `stats()` returns (`stats_exact`). With no offline tree the fast
    and the exact free counts are equal. -/
theorem fast_total_exact (c : Cfg) (H : Nat → Nat) (ok : CfgOk c) (m : Mem) (inv : UpperInv0 c H m) :
    Runs m (treeStats c) (fun s m' => m = m' ∧ s.freeFrames + blockSum H c.ntrees = m.freeTotal c.geom c.ntrees) :=
  LLFree.fast_total_exact c m ok inv

/-- **`validate()` passes** in every invariant state without offline trees: fast total = exact
    total, per-tree counters exact, reservations consistent with their (reserved) trees, and as
    many reserved trees as reservations — the program runs to the end without panic, reading only. -/
theorem validate_passes (c : Cfg) (ok : CfgOk c) (m : Mem) (inv : UpperInv0 c (fun _ => 0) m) :
    Runs m (validate c) (fun _ m' => m = m') :=
  validate_spec c m ok inv

/-- **Quiescent end of every interleaving (lower level)**: when all threads have finished their
    calls, every huge-entry counter is exactly the number of free frames of its bitfield. -/
theorem conc_quiescent_counters_exact (c : Cfg) (ok : GeomOk16 c.geom) (m : Mem) (inv : LowerInv c m)
    (n retries : Nat) (cmds : Nat → List LCmd) (sched : List Nat) (hsched : ∀ k ∈ sched, k < n)
    (hdone : ∀ k, k < n → ∃ held, ((concRun sched (m, fun k => Th.at (runL c.geom retries (cmds k) ⟨[], []⟩))).2 k).step
      (concRun sched (m, fun k => Th.at (runL c.geom retries (cmds k) ⟨[], []⟩))).1 = .done held) (h : Nat) :
    let m' := (concRun sched (m, fun k => Th.at (runL c.geom retries (cmds k) ⟨[], []⟩))).1
    Huge.isHuge (m'.hugeE h) = false → m'.hugeE h = zerosIn c.geom m' h := by
  obtain ⟨_, hok⟩ := lower_threads_safe ok m inv n retries cmds sched hsched
  exact hok.quiescent hdone h

/-- **Quiescent end of every interleaving (whole allocator)**: threads `k < n` run arbitrary
    lists of public calls from a state satisfying the upper invariant; under every schedule,
    once all of them have returned, the upper invariant holds again with the same hidden frames:
    tree counter + reservations + hidden = free frames of every tree, reserved entries are exactly
    those named by a slot, classes admissible, the lower invariant holds. -/
theorem conc_quiescent_upper_invariant (c : Cfg) (ok : CfgOk c) (H : Nat → Nat) (m : Mem) (inv : UpperInv0 c H m)
    (n : Nat) (cmds : Nat → List UCmd) (hvalid : ∀ k, ∀ x ∈ cmds k, x.valid c) (sched : List Nat) (hsched : ∀ k ∈ sched, k < n)
    (hdone : ∀ k, k < n → ∃ held, ((concRun sched (m, fun k => Th.at (runU c (cmds k) ⟨[], []⟩))).2 k).step
      (concRun sched (m, fun k => Th.at (runU c (cmds k) ⟨[], []⟩))).1 = .done held) :
    UpperInv0 c H (concRun sched (m, fun k => Th.at (runU c (cmds k) ⟨[], []⟩))).1 :=
  upper_conc_quiescent ok H m inv n cmds hvalid sched hsched hdone

/-- … so the fast total plus the hidden frames is the exact total there -/
theorem conc_quiescent_fast_total (c : Cfg) (ok : CfgOk c) (H : Nat → Nat) (m : Mem) (inv : UpperInv0 c H m)
    (n : Nat) (cmds : Nat → List UCmd) (hvalid : ∀ k, ∀ x ∈ cmds k, x.valid c) (sched : List Nat) (hsched : ∀ k ∈ sched, k < n)
    (hdone : ∀ k, k < n → ∃ held, ((concRun sched (m, fun k => Th.at (runU c (cmds k) ⟨[], []⟩))).2 k).step
      (concRun sched (m, fun k => Th.at (runU c (cmds k) ⟨[], []⟩))).1 = .done held) :
    let m' := (concRun sched (m, fun k => Th.at (runU c (cmds k) ⟨[], []⟩))).1
    Runs m' (treeStats c) (fun s m'' => m' = m'' ∧ s.freeFrames + blockSum H c.ntrees = m'.freeTotal c.geom c.ntrees) :=
  fast_total_exact c H ok _ (upper_conc_quiescent ok H m inv n cmds hvalid sched hsched hdone)

/-- … and `validate()` passes there when no tree is offline -/
theorem conc_quiescent_validate_passes (c : Cfg) (ok : CfgOk c) (m : Mem) (inv : UpperInv0 c (fun _ => 0) m)
    (n : Nat) (cmds : Nat → List UCmd) (hvalid : ∀ k, ∀ x ∈ cmds k, x.valid c) (sched : List Nat) (hsched : ∀ k ∈ sched, k < n)
    (hdone : ∀ k, k < n → ∃ held, ((concRun sched (m, fun k => Th.at (runU c (cmds k) ⟨[], []⟩))).2 k).step
      (concRun sched (m, fun k => Th.at (runU c (cmds k) ⟨[], []⟩))).1 = .done held) :
    let m' := (concRun sched (m, fun k => Th.at (runU c (cmds k) ⟨[], []⟩))).1
    Runs m' (validate c) (fun _ m'' => m' = m'') :=
  validate_passes c ok _ (upper_conc_quiescent ok _ m inv n cmds hvalid sched hsched hdone)

/-! ### K3: the Online race without the overflow -/

/-- two trees of 64 frames -/
def cK3 : Cfg := { geom := ⟨6, 1⟩, frames := 128, classes := [(0, 1)], dflt := 0, policy := simplePolicy 64 }
/-- frames 69 and 70 (tree 1) are allocated, tree 1 is offline -/
def mK3 : Mem := ⟨#[0#64, 96#64], #[64, 62], #[⟨64, false, 0⟩, ⟨0, false, 0⟩], #[LTree.none]⟩
def thsK3 : Nat → Th (Res Unit) := fun k =>
  if k = 0 then .at (put cK3 69 ⟨0, 0, none⟩) else .at (changeTree cK3 (some 1) none 0 none (some .online))

/-- **K3 (refutation of the concurrent clause with tree changes).** The free of frame 69 is
    preempted between `Lower::put` and `Trees::put`, `change_tree(Online)` runs in between: at the
    quiescent end tree 1 claims 64 free frames while its table entry (and its bitfield) hold 63 —
    frame 70 is still allocated. The fast count over-reports and `validate()` fails. -/
theorem k3_online_race_overreports :
    (concRun [0, 0, 0, 0, 0, 1, 1, 1, 1, 1, 0, 0, 0] (mK3, thsK3)).1.trees[1]? = some ⟨64, false, 0⟩ ∧
    (concRun [0, 0, 0, 0, 0, 1, 1, 1, 1, 1, 0, 0, 0] (mK3, thsK3)).1.huge[1]? = some 63 := by
  decide

/-- **Quiescent end of every interleaving with concurrent tree changes** (`change_tree` with a
    class change and/or `Offline`, by id or by search, among get/put/drain of any number of
    threads): the sequential upper invariant holds for hidden frames `H'` that only grew. -/
theorem conc_quiescent_with_tree_changes (c : Cfg) (ok : CfgOk c) (H : Nat → Nat) (m : Mem) (inv : UpperInv0 c H m)
    (n : Nat) (cmds : Nat → List CCmd) (hvalid : ∀ k, ∀ x ∈ cmds k, x.valid c) (sched : List Nat) (hsched : ∀ k ∈ sched, k < n)
    (hdone : ∀ k, k < n → ∃ held, ((concRun sched (m, fun k => Th.at (runUC c (cmds k) ⟨[], []⟩))).2 k).step
      (concRun sched (m, fun k => Th.at (runUC c (cmds k) ⟨[], []⟩))).1 = .done held) :
    ∃ H', (∀ i, H i ≤ H' i) ∧ UpperInv0 c H' (concRun sched (m, fun k => Th.at (runUC c (cmds k) ⟨[], []⟩))).1 :=
  upper_conc_quiescent_change ok H m inv n cmds hvalid sched hsched hdone

/-- … so there, too, the fast total plus the hidden frames is the exact total -/
theorem conc_quiescent_with_tree_changes_fast_total (c : Cfg) (ok : CfgOk c) (H : Nat → Nat) (m : Mem) (inv : UpperInv0 c H m)
    (n : Nat) (cmds : Nat → List CCmd) (hvalid : ∀ k, ∀ x ∈ cmds k, x.valid c) (sched : List Nat) (hsched : ∀ k ∈ sched, k < n)
    (hdone : ∀ k, k < n → ∃ held, ((concRun sched (m, fun k => Th.at (runUC c (cmds k) ⟨[], []⟩))).2 k).step
      (concRun sched (m, fun k => Th.at (runUC c (cmds k) ⟨[], []⟩))).1 = .done held) :
    let m' := (concRun sched (m, fun k => Th.at (runUC c (cmds k) ⟨[], []⟩))).1
    ∃ H', (∀ i, H i ≤ H' i) ∧
      Runs m' (treeStats c) (fun s m'' => m' = m'' ∧ s.freeFrames + blockSum H' c.ntrees = m'.freeTotal c.geom c.ntrees) := by
  obtain ⟨H', hle, hinv⟩ := upper_conc_quiescent_change ok H m inv n cmds hvalid sched hsched hdone
  exact ⟨H', hle, fast_total_exact c H' ok _ hinv⟩

/-- **The counter transitions of the model are those of the current source**: `Tree::with`, `Tree::put`
    and all of `impl LocalTree` (`with`, `none`, `get`, `put`, `set_start`) are regenerated from
    `core/src/trees.rs` / `core/src/local.rs` on every run (`Gen/Tree.lean`, `Gen/Local.lean`) and agree
    with the hand-written model for every argument: same new entry, same refusal, panic exactly
    together (bit-field ranges: fewer than 2^19 frames per tree for the slot counter). -/
theorem counter_transitions_match_source (tr tf : Nat) (t : Tree) (l : LTree) (free cls dflt row tree : Nat) (res : Bool) (otree : Option Nat)
    (policy : PolicyFn) (htf : tf < 2 ^ 19) (hl : l.free < 2 ^ 19) :
    GenTree.Sim (GenTree.ofR (Gen.T.with' tf free res cls)) (Tree.with tf free res cls) ∧
    GenTree.Sim (GenTree.ofR (Gen.T.put tf t free policy dflt)) (Tree.put tf t free policy dflt) ∧
    GenTree.Sim (GenTree.ofRL (Gen.L.with' row free)) (LTree.with row free) ∧
    Gen.L.none' = .ok LTree.none ∧
    GenTree.Sim (GenTree.ofROL (Gen.L.get tr l otree free)) (Upd.ofOption (LTree.get tr l otree free)) ∧
    GenTree.Sim (GenTree.ofROL (Gen.L.put tr tf l tree free)) (LTree.put tr tf l tree free) ∧
    GenTree.Sim (GenTree.ofROL (Gen.L.setStart tr l row)) (LTree.setStart tr l row) :=
  ⟨GenTree.with_eq tf free res cls (by omega), GenTree.put_eq tf t free policy dflt (by omega), GenTree.lwith_eq row free,
    GenTree.lnone_eq, GenTree.lget_eq tr l otree free hl, GenTree.lput_eq tr tf l tree free htf, GenTree.lsetStart_eq tr l row⟩

/-- **The table-entry transitions of the model are those of the current source**: `impl HugeEntry`
    (`new_huge`, `new_with`, `huge`, `free`, `dec`, `inc`) is regenerated from `core/src/lower.rs` on
    every run (`Gen/Huge.lean`) and agrees with the hand-written model for every entry value and
    amount (for `inc`: amounts up to the bitfield length, which is all the callers pass). -/
theorem huge_entry_transitions_match_source (len e n : Nat) (hn : n ≤ len) :
    Gen.H.newHuge = .ok HugeMarker ∧ Gen.H.newWith n = .ok (Huge.newWith n) ∧
    Gen.H.huge e = .ok (Huge.isHuge e) ∧ Gen.H.free e = .ok (Huge.free e) ∧
    GenTree.Sim (GenTree.ofRON (Gen.H.dec e n)) (Upd.ofOption (Huge.dec e n)) ∧
    GenTree.Sim (GenTree.ofRON (Gen.H.inc len e n)) (Huge.inc len e n) :=
  ⟨GenTree.hnewHuge_eq, GenTree.hnewWith_eq n, GenTree.hhuge_eq e, GenTree.hfree_eq e, GenTree.hdec_eq e n, GenTree.hinc_eq len e n hn⟩

end LLFree.C04
