/-
  Line-protocol driver: one request per line on stdin, one response per line on stdout.
  Runs the executable definitions of the model (the same ones the theorems are about).
-/
import LLFreeV.Model.Codec
import LLFreeV.Model.Policies
import LLFreeV.Model.Eval
import LLFreeV.Model.Conc
import LLFreeV.Model.Wrapper
import LLFreeV.Model.Bounds
open LLFree

structure St where
  geom : Geom := ⟨9, 4⟩
  cfg : Option Cfg := none
  mem : Mem := ⟨#[], #[], #[], #[]⟩
  conc : Option ConcSt := none
  zoff : Nat := 0

def optNat (s : String) : Option (Option Nat) :=
  if s == "-" then some none else s.toNat?.map some

def hexDigit (c : Char) : Option Nat :=
  if '0' ≤ c && c ≤ '9' then some (c.toNat - '0'.toNat)
  else if 'a' ≤ c && c ≤ 'f' then some (c.toNat - 'a'.toNat + 10)
  else if 'A' ≤ c && c ≤ 'F' then some (c.toNat - 'A'.toNat + 10)
  else none

def parseHex (s : String) : Option Nat :=
  if s.isEmpty then none else
  s.toList.foldl (fun acc ch => do let a ← acc; let d ← hexDigit ch; pure (a * 16 + d)) (some 0)

def toHex (n : Nat) : String := String.ofList (Nat.toDigits 16 n)

def parseClasses (s : String) : Option (List (Nat × Nat)) :=
  if s == "-" then some [] else
  (s.splitOn ",").mapM fun p =>
    match p.splitOn ":" with
    | [a, b] => do let a ← a.toNat?; let b ← b.toNat?; pure (a, b)
    | _ => none

def parsePolicy (g : Geom) (s : String) : Option PolicyFn :=
  match s.splitOn ":" with
  | ["simple"] => some (simplePolicy g.treeFrames)
  | ["zeroed"] => some (simplePolicy g.treeFrames)
  | ["movable"] => some (movablePolicy g.treeFrames)
  | ["eval", a, b, c, d] => do
    let a ← a.toNat?; let b ← b.toNat?; let c ← c.toNat?; let d ← d.toNat?
    pure (evalPolicy a b c d)
  | "inv" :: base :: pairs => do
    let basef ← match base with
      | "simple" => some (simplePolicy g.treeFrames)
      | "movable" => some (movablePolicy g.treeFrames)
      | _ => none
    let ps ← pairs.mapM fun p => match p.splitOn ">" with
      | [a, b] => do let a ← a.toNat?; let b ← b.toNat?; pure (a, b)
      | _ => none
    pure (invalidPairs basef ps)
  | _ => none

def resStr {α} (f : α → String) : Outcome (Res α) → String
  | .ok (.ok a) => "ok" ++ f a
  | .ok (.error e) => "err " ++ e.str
  | .panic s => "panic " ++ s

def outStr {α} (f : α → String) : Outcome α → String
  | .ok a => f a
  | .panic s => "panic " ++ s

def statsStr (s : Stats) : String := s!"stats {s.freeFrames} {s.freeHuge} {s.freeTrees}"

def tstatsStr (s : TreeStats) : String :=
  s!"tstats {s.freeFrames} {s.freeTrees}" ++ String.join (s.classes.map fun (f, a) => s!" {f} {a}")

def dumpStr (m : Mem) : String :=
  "dump rows " ++ " ".intercalate (m.rows.toList.map fun v => toHex v.toNat) ++
  " | huge " ++ " ".intercalate (m.huge.toList.map toHex) ++
  " | trees " ++ " ".intercalate (m.trees.toList.map fun t => toHex t.pack) ++
  " | slots " ++ " ".intercalate (m.slots.toList.map fun t => toHex t.pack)

/-- parse a section of hex words -/
def hexList (ws : List String) : Option (List Nat) := ws.mapM parseHex

def resStrR {α} (f : α → String) : Res α → String
  | .ok a => "ok" ++ f a
  | .error e => "err " ++ e.str

/-- a call of the concurrent client, as a program returning its rendered result -/
def parseCall (c : Cfg) (ws : List String) : Option (Prog String) :=
  match ws with
  | ["get", o, k, l, f] => do
    let o ← o.toNat?; let k ← k.toNat?; let l ← optNat l; let f ← optNat f
    pure (do let r ← get c f ⟨o, k, l⟩; return resStrR (fun (fr, cl) => s!" {fr} {cl}") r)
  | ["put", f, o, k, l] => do
    let f ← f.toNat?; let o ← o.toNat?; let k ← k.toNat?; let l ← optNat l
    pure (do let r ← put c f ⟨o, k, l⟩; return resStrR (fun _ => "") r)
  | ["drain"] => some (do drain c; return "ok")
  | ["change", id, mc, mf, cc, op] => do
    let id ← optNat id; let mc ← optNat mc; let mf ← mf.toNat?; let cc ← optNat cc
    let op ← (match op with
      | "on" => some (some Tree.Op.online) | "off" => some (some Tree.Op.offline) | "-" => some none | _ => none)
    pure (do let r ← changeTree c id mc mf cc op; return resStrR (fun _ => "") r)
  | ["lget", s, o, f] => do
    let s ← s.toNat?; let o ← o.toNat?; let f ← optNat f
    pure (do let r ← Lower.get c.geom s o f; return resStrR (fun fr => s!" {fr}") r)
  | ["lput", f, o] => do
    let f ← f.toNat?; let o ← o.toNat?
    pure (do let r ← Lower.put c.geom retries f o; return resStrR (fun _ => "") r)
  | _ => none

def concCmd (c : Cfg) (m : Mem) (cs? : Option ConcSt) (cmd : String) (args : List String) :
    Option (Mem × Option ConcSt × String) :=
  match cmd, args with
  | "cthreads", [n] =>
    match n.toNat? with
    | some n => some (m, some { threads := Array.replicate n {} }, "ok")
    | none => some (m, cs?, "bad-op")
  | "ccall", t :: call =>
    match t.toNat?, cs?, parseCall c call with
    | some t, some cs, some p =>
      match cs.threads[t]? with
      | some ts => some (m, some { cs with threads := cs.threads.setIfInBounds t { ts with queue := ts.queue ++ [p] } }, "ok")
      | none => some (m, cs?, "bad-op")
    | _, _, _ => some (m, cs?, "bad-op")
  | "cbegin", [t] =>
    match t.toNat?, cs? with
    | some t, some cs =>
      match cs.threads[t]? with
      | some ts =>
        let (ts', rets) := ThreadSt.advance 64 ts t []
        some (m, some { cs with threads := cs.threads.setIfInBounds t ts' },
          if rets.isEmpty then "ok" else " | ".intercalate rets)
      | none => some (m, cs?, "bad-op")
    | _, _ => some (m, cs?, "bad-op")
  | "cstep", [t] =>
    match t.toNat?, cs? with
    | some t, some cs =>
      let (m', cs', out) := cs.step m t
      some (m', some cs', out)
    | _, _ => some (m, cs?, "bad-op")
  | "cend", [] => some (m, none, "ok")
  | _, _ => none

/-! Packed metadata entries: every pure transition of `Tree`, `LocalTree` and `HugeEntry` on raw bits
    (the functions the `Prog` model applies inside its atomic updates). -/
def updT : Upd Tree → String
  | .set t => "set " ++ toHex t.pack
  | .skip => "none"
  | .panic s => "panic " ++ s
def updL : Upd LTree → String
  | .set t => "set " ++ toHex t.pack
  | .skip => "none"
  | .panic s => "panic " ++ s
def updH : Upd Nat → String
  | .set v => "set " ++ toHex v
  | .skip => "none"
  | .panic s => "panic " ++ s

def entStep (g : Geom) (cmd : String) (args : List String) : Option String :=
  let tf := g.treeFrames
  let tr := g.treeRows
  match cmd, args with
  | "et_with", [f, r, c] =>
    match f.toNat?, c.toNat? with
    | some f, some c => some (updT (Tree.with tf f (r == "1") c))
    | _, _ => some "bad-op"
  | "et_put", [raw, f, p, d] =>
    match parseHex raw, f.toNat?, parsePolicy g p, d.toNat? with
    | some raw, some f, some p, some d => some (updT (Tree.put tf (Tree.unpack raw) f p d))
    | _, _, _, _ => some "bad-op"
  | "et_steal", [raw, c, f, p] =>
    match parseHex raw, c.toNat?, f.toNat?, parsePolicy g p with
    | some raw, some c, some f, some p => some (updT (Upd.ofOption ((Tree.unpack raw).steal c f p)))
    | _, _, _, _ => some "bad-op"
  | "et_ros", [raw, f, p, c] =>
    match parseHex raw, f.toNat?, parsePolicy g p, c.toNat? with
    | some raw, some f, some p, some c => some (updT (Tree.reserveOrSteal tf (Tree.unpack raw) f p c))
    | _, _, _, _ => some "bad-op"
  | "et_ua", [raw, f, c, p, d] =>
    match parseHex raw, f.toNat?, c.toNat?, parsePolicy g p, d.toNat? with
    | some raw, some f, some c, some p, some d => some (updT (Tree.unreserveAdd tf (Tree.unpack raw) f c p d))
    | _, _, _, _, _ => some "bad-op"
  | "et_ss", [raw, m] =>
    match parseHex raw, m.toNat? with
    | some raw, some m => some (updT (Upd.ofOption ((Tree.unpack raw).syncSteal m)))
    | _, _ => some "bad-op"
  | "et_chg", [raw, mc, mf, cc, op, fetch] =>
    let op? : Option (Option Tree.Op) := match op with
      | "on" => some (some .online) | "off" => some (some .offline) | "-" => some none | _ => none
    match parseHex raw, optNat mc, mf.toNat?, optNat cc, op?, fetch.toNat? with
    | some raw, some mc, some mf, some cc, some op, some fetch =>
      some (updT (Tree.change (Tree.unpack raw) mc mf cc op fetch))
    | _, _, _, _, _, _ => some "bad-op"
  | "el_with", [r, f] =>
    match r.toNat?, f.toNat? with
    | some r, some f => some (updL (LTree.with r f))
    | _, _ => some "bad-op"
  | "el_get", [raw, t, f] =>
    match parseHex raw, optNat t, f.toNat? with
    | some raw, some t, some f => some (updL (Upd.ofOption ((LTree.unpack raw).get tr t f)))
    | _, _, _ => some "bad-op"
  | "el_put", [raw, t, f] =>
    match parseHex raw, t.toNat?, f.toNat? with
    | some raw, some t, some f => some (updL ((LTree.unpack raw).put tr tf t f))
    | _, _, _ => some "bad-op"
  | "el_start", [raw, r] =>
    match parseHex raw, r.toNat? with
    | some raw, some r => some (updL ((LTree.unpack raw).setStart tr r))
    | _, _ => some "bad-op"
  | "eh_new", [f] =>
    match f.toNat? with
    | some f => some (updH (.set (Huge.newWith f)))
    | none => some "bad-op"
  | "eh_view", [raw] =>
    match parseHex raw with
    | some raw => some s!"view {if Huge.isHuge raw then 1 else 0} {Huge.free raw}"
    | none => some "bad-op"
  | "eh_dec", [raw, n] =>
    match parseHex raw, n.toNat? with
    | some raw, some n => some (updH (Upd.ofOption (Huge.dec raw n)))
    | _, _ => some "bad-op"
  | "eh_inc", [raw, n] =>
    match parseHex raw, n.toNat? with
    | some raw, some n => some (updH (Huge.inc (2 ^ g.hugeOrder) raw n))
    | _, _ => some "bad-op"
  | _, _ => none

def run {α} (st : St) (p : Prog α) : St × Outcome α :=
  let (m, o) := runSolo p st.mem
  ({ st with mem := m }, o)

def step (st : St) (line : String) : St × String :=
  let ws := (line.trimAscii.toString.splitOn " ").filter (· ≠ "")
  match ws with
  | [] => (st, "")
  | ["geom", a, b] =>
    match a.toNat?, b.toNat? with
    | some a, some b => ({ st with geom := ⟨a, b⟩, cfg := none }, "ok")
    | _, _ => (st, "bad-op")
  | "new" :: frames :: init :: dflt :: pol :: classes :: rest =>
    let zoff? : Option Nat := match rest with
      | [] => some 0
      | [z] => if z.startsWith "zone:" then (z.drop 5).toString.toNat? else none
      | _ => none
    match frames.toNat?, dflt.toNat?, parsePolicy st.geom pol, parseClasses classes, zoff? with
    | some frames, some dflt, some pol, some classes, some zoff =>
      -- `ZoneAlloc::create`: the offset must be aligned to the tree size
      if zoff % 2 ^ st.geom.treeOrder ≠ 0 then (st, "err init") else
      let st := { st with zoff := zoff }
      let ini? : Option Init := match init with
        | "free" => some .freeAll | "alloc" => some .allocAll | "recover" => some .recover
        | "none" => some .none | _ => none
      match ini? with
      | none => (st, "bad-op")
      | some ini =>
        let cfg : Cfg := { geom := st.geom, frames := frames, classes := classes, dflt := dflt, policy := pol }
        -- Init::None / Recover keep the current memory if it has the right shape
        let keep := (ini == .none || ini == .recover) && st.mem.rows.size == cfg.nhuge * cfg.geom.rows
            && st.mem.huge.size == cfg.ntrees * cfg.geom.treeHuge && st.mem.trees.size == cfg.ntrees
            && st.mem.slots.size == cfg.nslots
        -- recovery: only the lower metadata is persistent
        let mem := if keep then
            (if ini == .recover then { cfg.zeroMem with rows := st.mem.rows, huge := st.mem.huge } else st.mem)
          else cfg.zeroMem
        let st := { st with cfg := some cfg, mem := mem }
        let (st, o) := run st (initProg cfg ini)
        (st, outStr (fun _ => "ok") o)
    | _, _, _, _, _ => (st, "bad-op")
  | "mem" :: rest =>
    -- mem rows <hex>* | huge <hex>* | trees <hex>* | slots <hex>*
    let secs := (" ".intercalate rest).splitOn " | "
    let get (name : String) : Option (Option (List Nat)) :=
      match secs.find? (fun s => (s.splitOn " ").head? == some name) with
      | some s => (hexList (((s.splitOn " ").drop 1).filter (· ≠ ""))).map some
      | none => some none
    match get "rows", get "huge", get "trees", get "slots" with
    | some r, some h, some t, some s =>
      -- a section that is not given keeps the current contents (like the harness does)
      let m := st.mem
      ({ st with mem := { rows := match r with | some r => (r.map (BitVec.ofNat 64)).toArray | none => m.rows
                          huge := match h with | some h => h.toArray | none => m.huge
                          trees := match t with | some t => (t.map Tree.unpack).toArray | none => m.trees
                          slots := match s with | some s => (s.map LTree.unpack).toArray | none => m.slots } }, "ok")
    | _, _, _, _ => (st, "bad-op")
  | cmd :: args =>
    match st.cfg with
    | none => (st, ((entStep st.geom cmd args).orElse fun _ => unitStep st.geom.treeFrames cmd args).getD "bad-op no-cfg")
    | some c =>
      match cmd, args with
      | "get", [o, k, l, f] =>
        match o.toNat?, k.toNat?, optNat l, optNat f with
        | some o, some k, some l, some f =>
          let (st, r) := run st (get c f ⟨o, k, l⟩)
          (st, resStr (fun (fr, cl) => s!" {fr} {cl}") r)
        | _, _, _, _ => (st, "bad-op")
      | "zget", [o, k, l, f] =>
        match o.toNat?, k.toNat?, optNat l, optNat f with
        | some o, some k, some l, some f =>
          let (st, r) := run st (Zone.get c st.zoff f ⟨o, k, l⟩)
          (st, resStr (fun (fr, cl) => s!" {fr} {cl}") r)
        | _, _, _, _ => (st, "bad-op")
      | "zput", [f, o, k, l] =>
        match f.toNat?, o.toNat?, k.toNat?, optNat l with
        | some f, some o, some k, some l =>
          let (st, r) := run st (Zone.put c st.zoff f ⟨o, k, l⟩)
          (st, resStr (fun _ => "") r)
        | _, _, _, _ => (st, "bad-op")
      | "zstatsat", [f, o] =>
        match f.toNat?, o.toNat? with
        | some f, some o =>
          let (st, r) := run st (Zone.statsAt c st.zoff f o)
          (st, outStr statsStr r)
        | _, _ => (st, "bad-op")
      | "put", [f, o, k, l] =>
        match f.toNat?, o.toNat?, k.toNat?, optNat l with
        | some f, some o, some k, some l =>
          let (st, r) := run st (put c f ⟨o, k, l⟩)
          (st, resStr (fun _ => "") r)
        | _, _, _, _ => (st, "bad-op")
      | "drain", [] =>
        let (st, r) := run st (drain c)
        (st, outStr (fun _ => "ok") r)
      | "change", [id, mc, mf, cc, op] =>
        match optNat id, optNat mc, mf.toNat?, optNat cc with
        | some id, some mc, some mf, some cc =>
          let op? : Option (Option Tree.Op) := match op with
            | "on" => some (some .online) | "off" => some (some .offline) | "-" => some none | _ => none
          match op? with
          | some op =>
            let (st, r) := run st (changeTree c id mc mf cc op)
            (st, resStr (fun _ => "") r)
          | none => (st, "bad-op")
        | _, _, _, _ => (st, "bad-op")
      | "validate", [] =>
        let (st, r) := run st (validate c)
        (st, outStr (fun _ => "ok") r)
      | "stats", [] =>
        let (st, r) := run st (stats c)
        (st, outStr statsStr r)
      | "tstats", [] =>
        let (st, r) := run st (treeStats c)
        (st, outStr tstatsStr r)
      | "statsat", [f, o] =>
        match f.toNat?, o.toNat? with
        | some f, some o =>
          let (st, r) := run st (Lower.statsAt c.geom f o)
          (st, outStr statsStr r)
        | _, _ => (st, "bad-op")
      | "isfree", [f, o] =>
        match f.toNat?, o.toNat? with
        | some f, some o =>
          let (st, r) := run st (Lower.isFree c.geom f o)
          (st, outStr (fun b => if b then "true" else "false") r)
        | _, _ => (st, "bad-op")
      | "lget", [s, o, f] =>
        match s.toNat?, o.toNat?, optNat f with
        | some s, some o, some f =>
          let (st, r) := run st (Lower.get c.geom s o f)
          (st, resStr (fun fr => s!" {fr}") r)
        | _, _, _ => (st, "bad-op")
      | "lput", [f, o] =>
        match f.toNat?, o.toNat? with
        | some f, some o =>
          let (st, r) := run st (Lower.put c.geom retries f o)
          (st, resStr (fun _ => "") r)
        | _, _ => (st, "bad-op")
      | "recover", [] =>
        let (st, r) := run st (Lower.recover c.geom c.ntrees c.nhuge)
        (st, outStr (fun _ => "ok") r)
      | "handoff", [] => (st, "ok")
      | "solocheck", [n] =>
        -- C21: accesses a frozen-out thread needed to finish its call, against the proved bound
        match n.toNat? with
        | some n => (st, if n ≤ apiB c then "within" else s!"exceeds {apiB c}")
        | none => (st, "bad-op")
      | "hash", [] => (st, "hash " ++ toHex st.mem.digest.toNat)
      | "dump", [] => (st, dumpStr st.mem)
      | _, _ =>
        match (entStep c.geom cmd args).orElse fun _ => evalStep c cmd args with
        | some r => (st, r)
        | none =>
          match concCmd c st.mem st.conc cmd args with
          | some (m, cs, r) => ({ st with mem := m, conc := cs }, r)
          | none => (st, "bad-op")

partial def loop (h : IO.FS.Stream) (out : IO.FS.Stream) (st : St) : IO Unit := do
  let line ← h.getLine
  if line.isEmpty then return ()
  let (st', o) := step st line
  if !o.isEmpty then out.putStrLn o
  loop h out st'

def main : IO Unit := do
  let stdin ← IO.getStdin
  let stdout ← IO.getStdout
  loop stdin stdout {}
